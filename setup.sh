#!/bin/sh
# Builds the driver and warms the Go build cache from files on disk only (offline).
set -eu
ROOT=$(cd "$(dirname "$0")" && pwd)
export GOFLAGS=-mod=mod GOPROXY=off GOSUMDB=off GOTOOLCHAIN=local
mkdir -p "$ROOT/bin" "$ROOT/evidence" "$ROOT/replays" "$ROOT/.work"
cd "$ROOT/harness"
go build -o "$ROOT/bin/verifcheck" ./cmd/verifcheck
W="$ROOT/.work/setup.$$"
mkdir -p "$W"
go test -c -tags verif -o "$W/props.test" ./props
go test -c -race -tags verif -o "$W/props.race.test" ./props || echo "setup: race build failed (C12 will report exit 2)" >&2
GOARCH=386 go test -c -tags verif -o "$W/props.386.test" ./props || echo "setup: 386 build failed (the int32 jobs will report exit 2)" >&2
go build -tags verif -o "$W/update-wordlist" github.com/islishude/bip39/update-wordlist
rm -rf "$W"
echo "setup ok"
