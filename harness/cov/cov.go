// Package cov collects what a check actually generated: evaluation counts,
// class histograms, a set of hashes of the distinct non-trivial cases and a few
// verbatim samples. One collector per test process; the driver merges shards.
package cov

import (
	"encoding/binary"
	"encoding/json"
	"hash/fnv"
	"os"
	"sort"
	"sync"
)

const (
	maxHashes  = 1 << 20
	maxSamples = 6
)

type Stats struct {
	Evaluations   int64             `json:"evaluations"`
	Classes       map[string]int64  `json:"classes"`
	Samples       []json.RawMessage `json:"samples"`
	Rules         []string          `json:"rules"`
	Extra         map[string]any    `json:"extra,omitempty"`
	Exhaustive    []string          `json:"exhaustive,omitempty"`
	HashFile      string            `json:"hash_file"`
	HashCount     int               `json:"hash_count"`
	HashSaturated bool              `json:"hash_saturated"`
	ExcludedKnown int64             `json:"excluded_known"`
}

var (
	mu          sync.Mutex
	st          = Stats{Classes: map[string]int64{}, Extra: map[string]any{}}
	hashes      = map[uint64]struct{}{}
	sampleKinds = map[string]int{}
)

// Eval counts n executed cases.
func Eval(n int) { mu.Lock(); st.Evaluations += int64(n); mu.Unlock() }

// Class increments a class counter.
func Class(name string) { mu.Lock(); st.Classes[name]++; mu.Unlock() }

// ClassN adds n to a class counter.
func ClassN(name string, n int) { mu.Lock(); st.Classes[name] += int64(n); mu.Unlock() }

// Excluded counts a generated case that was skipped because it is a listed known finding.
func Excluded() { mu.Lock(); st.ExcludedKnown++; mu.Unlock() }

// NonTrivial records a distinct non-trivial case identified by the parts.
func NonTrivial(kind string, parts ...[]byte) {
	h := fnv.New64a()
	h.Write([]byte(kind))
	var l [4]byte
	for _, p := range parts {
		binary.LittleEndian.PutUint32(l[:], uint32(len(p)))
		h.Write(l[:])
		h.Write(p)
	}
	v := h.Sum64()
	mu.Lock()
	if len(hashes) < maxHashes {
		hashes[v] = struct{}{}
	} else if _, ok := hashes[v]; !ok {
		st.HashSaturated = true
	}
	mu.Unlock()
}

// Sample keeps up to a few cases per kind verbatim.
func Sample(kind string, v any) {
	mu.Lock()
	defer mu.Unlock()
	if sampleKinds[kind] >= 2 || len(st.Samples) >= 4*maxSamples {
		return
	}
	b, err := json.Marshal(map[string]any{"kind": kind, "case": v})
	if err != nil || len(b) > 4096 {
		return
	}
	sampleKinds[kind]++
	st.Samples = append(st.Samples, b)
}

// Rule records (once) how cases are generated and what counts as non-trivial.
func Rule(s string) {
	mu.Lock()
	defer mu.Unlock()
	for _, r := range st.Rules {
		if r == s {
			return
		}
	}
	st.Rules = append(st.Rules, s)
}

// Exhaustive records that a finite domain was enumerated completely by this process
// (or its share of it when sharded).
func Exhaustive(what string) {
	mu.Lock()
	defer mu.Unlock()
	for _, r := range st.Exhaustive {
		if r == what {
			return
		}
	}
	st.Exhaustive = append(st.Exhaustive, what)
}

// Extra stores a named measurement.
func Extra(name string, v any) { mu.Lock(); st.Extra[name] = v; mu.Unlock() }

// ExtraAdd adds to a named integer measurement.
func ExtraAdd(name string, n int64) {
	mu.Lock()
	old, _ := st.Extra[name].(int64)
	st.Extra[name] = old + n
	mu.Unlock()
}

// Flush writes the stats (JSON) and the hash set (binary, 8 bytes each).
func Flush(path string) error {
	mu.Lock()
	defer mu.Unlock()
	hs := make([]uint64, 0, len(hashes))
	for h := range hashes {
		hs = append(hs, h)
	}
	sort.Slice(hs, func(i, j int) bool { return hs[i] < hs[j] })
	buf := make([]byte, 8*len(hs))
	for i, h := range hs {
		binary.LittleEndian.PutUint64(buf[8*i:], h)
	}
	st.HashFile = path + ".hashes"
	st.HashCount = len(hs)
	if err := os.WriteFile(st.HashFile, buf, 0o644); err != nil {
		return err
	}
	b, err := json.Marshal(&st)
	if err != nil {
		return err
	}
	return os.WriteFile(path, b, 0o644)
}

var seq int64

// Seq returns a process-wide sequence number (to tell apart cases whose inputs are not recorded).
func Seq() int64 { mu.Lock(); seq++; v := seq; mu.Unlock(); return v }
