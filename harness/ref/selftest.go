package ref

import (
	"bytes"
	"encoding/hex"
	"fmt"
	"strings"
)

func rep(b byte, n int) []byte { return bytes.Repeat([]byte{b}, n) }

// SelfTest checks the reference model against vectors stated from the BIP39
// specification and against the vectors of the repository's own test files.
// A failure means the oracle is broken (exit 2), never a property violation.
func SelfTest() error {
	enc := []struct {
		ent  []byte
		l    Lang
		want string
	}{
		{rep(0x00, 16), English, strings.Repeat("abandon ", 11) + "about"},
		{rep(0x7f, 16), English, "legal winner thank year wave sausage worth useful legal winner thank yellow"},
		{rep(0x80, 16), English, "letter advice cage absurd amount doctor acoustic avoid letter advice cage above"},
		{rep(0xff, 16), English, strings.Repeat("zoo ", 11) + "wrong"},
		{rep(0x00, 32), English, strings.Repeat("abandon ", 23) + "art"},
		{rep(0xff, 32), English, strings.Repeat("zoo ", 23) + "vote"},
		{rep(0x00, 24), English, strings.Repeat("abandon ", 17) + "agent"},
		{mustHex("8e8bf76c330d126d3ba872a96f70af1b96e4b549"), English, "model garden swallow gravity spell custom upgrade atom practice knee cloth damp hour follow category"},
		{mustHex("126f3c8b10757e43bbfd48d79e861d03"), English, "bar ketchup carpet can fitness canyon useful poverty stuff vintage mansion all"},
		{mustHex("823be3d84e6ce7494001d42949f9ce391fe45616"), Japanese, "そらまめ　ほとんど　らくがき　ていか　ひみつ　てんらんかい　あいこくしん　くうふく　かいほう　こさめ　せいかつ　すめし　ろれつ　かたい　さつえい"},
		{mustHex("79079bf165e25537e2dce15919440cc4"), English, "jungle devote wisdom slim census orbit merge order flip sketch add mass"},
		{[]byte{21, 120, 206, 104, 250, 153, 120, 93, 127, 66, 41, 113, 68, 114, 242, 7}, English, "betray shoe olive vivid nurse concert wonder early image castle route avocado"},
	}
	for _, v := range enc {
		got := Encode(v.ent, v.l)
		if NFKD(got) != NFKD(v.want) {
			return fmt.Errorf("ref self-test: Encode(%x,%s) = %q, want %q", v.ent, v.l, got, v.want)
		}
		e, ok, err := Decode(v.l, got)
		if err != nil || !ok || !bytes.Equal(e, v.ent) {
			return fmt.Errorf("ref self-test: Decode(Encode(%x)) = %x,%v,%v", v.ent, e, ok, err)
		}
		if !FieldsValid(v.l, got) {
			return fmt.Errorf("ref self-test: FieldsValid(%q) = false", got)
		}
		idx := Indices(v.ent)
		sol := SolveLast(idx[:len(idx)-1])
		if len(sol) != 1<<uint(11-len(idx)/3) {
			return fmt.Errorf("ref self-test: SolveLast gave %d solutions", len(sol))
		}
		found := false
		for _, s := range sol {
			if s == idx[len(idx)-1] {
				found = true
			}
		}
		if !found {
			return fmt.Errorf("ref self-test: SolveLast misses the real last word")
		}
	}
	if FieldsValid(English, strings.Repeat("abandon ", 11)+"achieve") {
		return fmt.Errorf("ref self-test: abandon x11 achieve accepted")
	}
	seeds := []struct{ m, p, want string }{
		{strings.Repeat("abandon ", 11) + "about", "TREZOR", "c55257c360c07c72029aebc1b53c05ed0362ada38ead3e3e9efa3708e53495531f09a6987599d18264c1e1c92f2cf141630c7a3c4ab7c81b2f001698e7463b04"},
		{"moment butter trigger coffee divert choose slim tiger ice series cup enough", "", "4b8c14466dbad77f6ff3adf016d372fbccfb0308ea5a36c9ab0c6f6eb1162ca461c02a1df2a1b854291785e59f0d98eb39af4d02a0ca8ffae5f66ff2dd0e2a48"},
		{"coffee purity language speed anger whisper ramp burden response brief coast trigger", "bip39", "ddfb143f00d7c135a59f1a05d00d2477a3eaa8ebfc1d4a4ddf2875d03cb74635458161a40faab128b4b8e1aeed75a919508a2816e7ef0a282105ad8ae48c91eb"},
		{"こころ　いどう　きあつ　そうがんきょう　へいあん　せつりつ　ごうせい　はいち　いびき　きこく　あんい　おちつく　きこえる　けんとう　たいこ　すすめる　はっけん　ていど　はんおん　いんさつ　うなぎ　しねま　れいぼう　みつかる", "㍍ガバヴァぱばぐゞちぢ十人十色", "43de99b502e152d4c198542624511db3007c8f8f126a30818e856b2d8a20400d29e7a7e3fdd21f909e23be5e3c8d9aee3a739b0b65041ff0b8637276703f65c2"},
	}
	for _, v := range seeds {
		if got := hex.EncodeToString(Seed(v.m, v.p)); got != v.want {
			return fmt.Errorf("ref self-test: Seed(%q,%q) = %s, want %s", v.m, v.p, got, v.want)
		}
	}
	// RFC 4231-style sanity of the HMAC with a key longer than the block.
	long := rep(0xaa, 131)
	h := newHMAC512(long).sum([]byte("Test Using Larger Than Block-Size Key - Hash Key First"))
	if hex.EncodeToString(h[:]) != "80b24263c7c1a3ebb71493c1dd7be8b49b46d1f41b4aeec1121b013783f8f3526b56d037e05f2598bd0fd2215d6a1e5295e64f73f63f0aec8b915a985d786598" {
		return fmt.Errorf("ref self-test: HMAC-SHA512 long key vector failed")
	}
	// hand-written Unicode facts from the standard (not from x/text)
	facts := [][2]string{
		{"\u3000", " "}, {"\u00a0", " "}, {"\u2003", " "}, {"\u00c5", "A\u030a"}, {"\u212b", "A\u030a"},
		{"\ufb01", "fi"}, {"\u3349", "\u30df\u30ea"}, {"\uff21", "A"}, {"\uff5a", "z"},
		{"\u304c", "\u304b\u3099"}, {"\uac00", "\u1100\u1161"}, {"\ud55c", "\u1112\u1161\u11ab"},
		{"a\u0307\u0323", "a\u0323\u0307"}, {"\u3336", "\u30d8\u30af\u30bf\u30fc\u30eb"},
		{"\u334d", "\u30e1\u30fc\u30c8\u30eb"}, {"\u2460", "1"}, {"\u00e9", "e\u0301"},
		{"\u1e69", "s\u0323\u0307"}, {"\u00aa", "a"}, {"\u2126", "\u03a9"},
	}
	for _, f := range facts {
		if NFKD(f[0]) != f[1] {
			return fmt.Errorf("ref self-test: NFKD(%+q) = %+q, want %+q", f[0], NFKD(f[0]), f[1])
		}
	}
	for l := Lang(0); l < NumLangs; l++ {
		for _, w := range Golden(l) {
			if NFKD(w) != w {
				return fmt.Errorf("ref self-test: golden %s word %q is not NFKD-stable", l, w)
			}
		}
	}
	return nil
}

func mustHex(s string) []byte {
	b, err := hex.DecodeString(s)
	if err != nil {
		panic(err)
	}
	return b
}
