// Package ref is the reference model (trusted base) of the harness.
//
// It is written against the BIP39 text, not against the implementation under
// test, and deliberately uses different techniques: explicit bit slices instead
// of math/big, a hand-written HMAC/PBKDF2 instead of golang.org/x/crypto, and
// golden word lists embedded from files under /verif whose digests are pinned
// below. It never imports github.com/islishude/bip39.
package ref

import (
	"crypto/sha256"
	"crypto/sha512"
	"embed"
	"encoding/hex"
	"fmt"
	"strings"
	"sync"

	"golang.org/x/text/unicode/norm"
)

//go:embed golden/*.txt
var goldenFS embed.FS

// Lang identifies one of the ten supported languages in the reference model.
// The numbering is the harness's own (alphabetical by upstream file name) and
// deliberately differs from the implementation's.
type Lang int

const (
	ChineseSimplified Lang = iota
	ChineseTraditional
	Czech
	English
	French
	Italian
	Japanese
	Korean
	Portuguese
	Spanish
	NumLangs
)

type langInfo struct {
	Name   string // declared identifier in the implementation
	File   string // upstream file name without .txt
	SHA256 string // digest of "words joined by \n plus trailing \n"
}

var infos = [NumLangs]langInfo{
	ChineseSimplified:  {"ChineseSimplified", "chinese_simplified", "5c5942792bd8340cb8b27cd592f1015edf56a8c5b26276ee18a482428e7c5726"},
	ChineseTraditional: {"ChineseTraditional", "chinese_traditional", "417b26b3d8500a4ae3d59717d7011952db6fc2fb84b807f3f94ac734e89c1b5f"},
	Czech:              {"Czech", "czech", "7e80e161c3e93d9554c2efb78d4e3cebf8fc727e9c52e03b83b94406bdcc95fc"},
	English:            {"English", "english", "2f5eed53a4727b4bf8880d8f3f199efc90e58503646d9ff8eff3a2ed3b24dbda"},
	French:             {"French", "french", "ebc3959ab7801a1df6bac4fa7d970652f1df76b683cd2f4003c941c63d517e59"},
	Italian:            {"Italian", "italian", "d392c49fdb700a24cd1fceb237c1f65dcc128f6b34a8aacb58b59384b5c648c2"},
	Japanese:           {"Japanese", "japanese", "2eed0aef492291e061633d7ad8117f1a2b03eb80a29d0e4e3117ac2528d05ffd"},
	Korean:             {"Korean", "korean", "9e95f86c167de88f450f0aaf89e87f6624a57f973c67b516e338e8e8b8897f60"},
	Portuguese:         {"Portuguese", "portuguese", "2685e9c194c82ae67e10ba59d9ea5345a23dc093e92276fc5361f6667d79cd3f"},
	Spanish:            {"Spanish", "spanish", "46846a5a0139d1e3cb77293e521c2865f7bcdb82c44e8d0a06a2cd0ecba48c0b"},
}

func (l Lang) Name() string { return infos[l].Name }
func (l Lang) File() string { return infos[l].File }
func (l Lang) String() string {
	if l < 0 || l >= NumLangs {
		return fmt.Sprintf("ref.Lang(%d)", int(l))
	}
	return infos[l].Name
}

// Sep is the separator the specification prescribes for generated sentences.
func (l Lang) Sep() string {
	if l == Japanese {
		return "\u3000"
	}
	return " "
}

// LangByFile returns the language whose upstream file is name (without .txt).
func LangByFile(name string) (Lang, bool) {
	for l := Lang(0); l < NumLangs; l++ {
		if infos[l].File == name {
			return l, true
		}
	}
	return 0, false
}

type table struct {
	words []string
	index map[string]int
	raw   []byte
}

var (
	tables    [NumLangs]*table
	tableOnce [NumLangs]sync.Once
)

func load(l Lang) *table {
	tableOnce[l].Do(func() {
		raw, err := goldenFS.ReadFile("golden/" + infos[l].File + ".txt")
		if err != nil {
			panic("ref: " + err.Error())
		}
		sum := sha256.Sum256(raw)
		if hex.EncodeToString(sum[:]) != infos[l].SHA256 {
			panic("ref: golden list " + infos[l].File + " does not match its pinned digest")
		}
		words := strings.Split(strings.TrimSuffix(string(raw), "\n"), "\n")
		if len(words) != 2048 {
			panic("ref: golden list " + infos[l].File + " does not have 2048 words")
		}
		idx := make(map[string]int, 2048)
		for i, w := range words {
			if _, dup := idx[w]; dup || w == "" {
				panic("ref: golden list " + infos[l].File + " has a duplicate or empty word")
			}
			idx[w] = i
		}
		tables[l] = &table{words: words, index: idx, raw: raw}
	})
	return tables[l]
}

// Golden returns the canonical list (do not modify).
func Golden(l Lang) []string { return load(l).words }

// GoldenFile returns the canonical upstream file content ("word\n" × 2048).
func GoldenFile(l Lang) []byte { return load(l).raw }

// WordIndex returns the index of w in the canonical list.
func WordIndex(l Lang, w string) (int, bool) {
	i, ok := load(l).index[w]
	return i, ok
}

// ValidSize reports whether n is an acceptable entropy length in bytes.
func ValidSize(n int) bool { return n == 16 || n == 20 || n == 24 || n == 28 || n == 32 }

// ValidCount reports whether n is an acceptable number of words.
func ValidCount(n int) bool { return n == 12 || n == 15 || n == 18 || n == 21 || n == 24 }

// Sizes and Counts list the acceptable values.
var (
	Sizes  = []int{16, 20, 24, 28, 32}
	Counts = []int{12, 15, 18, 21, 24}
)

func toBits(b []byte) []byte {
	bits := make([]byte, 0, len(b)*8)
	for _, x := range b {
		for k := 7; k >= 0; k-- {
			bits = append(bits, (x>>uint(k))&1)
		}
	}
	return bits
}

// Indices returns the 11-bit groups of entropy||checksum, most significant
// first. The entropy length must be valid.
func Indices(entropy []byte) []int {
	if !ValidSize(len(entropy)) {
		panic("ref.Indices: bad entropy size")
	}
	cs := len(entropy) / 4 // ENT/32 bits
	h := sha256.Sum256(entropy)
	bits := toBits(entropy)
	bits = append(bits, toBits(h[:])[:cs]...)
	if len(bits)%11 != 0 {
		panic("ref.Indices: internal")
	}
	out := make([]int, len(bits)/11)
	for i := range out {
		v := 0
		for _, b := range bits[i*11 : i*11+11] {
			v = v<<1 | int(b)
		}
		out[i] = v
	}
	return out
}

// Words returns the canonical words for the indices.
func Words(l Lang, idx []int) []string {
	g := Golden(l)
	w := make([]string, len(idx))
	for i, x := range idx {
		w[i] = g[x]
	}
	return w
}

// Encode returns the BIP39 sentence for the entropy in language l.
func Encode(entropy []byte, l Lang) string {
	return strings.Join(Words(l, Indices(entropy)), l.Sep())
}

// Unpack splits n=len(idx) 11-bit indices into entropy bytes and the trailing
// checksum bits (as an integer). len(idx) must be a valid count.
func Unpack(idx []int) (entropy []byte, cs int) {
	n := len(idx)
	if !ValidCount(n) {
		panic("ref.Unpack: bad count")
	}
	bits := make([]byte, 0, n*11)
	for _, x := range idx {
		for k := 10; k >= 0; k-- {
			bits = append(bits, byte(x>>uint(k))&1)
		}
	}
	csBits := n / 3
	entBits := n*11 - csBits
	entropy = make([]byte, entBits/8)
	for i := 0; i < entBits; i++ {
		entropy[i/8] |= bits[i] << uint(7-i%8)
	}
	for _, b := range bits[entBits:] {
		cs = cs<<1 | int(b)
	}
	return entropy, cs
}

// ChecksumOf returns the first ENT/32 bits of SHA-256(entropy) as an integer.
func ChecksumOf(entropy []byte) int {
	h := sha256.Sum256(entropy)
	return int(h[0]) >> uint(8-len(entropy)/4)
}

// IndicesValid reports whether the indices form a sentence with an acceptable
// count and a correct checksum.
func IndicesValid(idx []int) bool {
	if !ValidCount(len(idx)) {
		return false
	}
	for _, x := range idx {
		if x < 0 || x > 2047 {
			return false
		}
	}
	e, cs := Unpack(idx)
	return ChecksumOf(e) == cs
}

// SolveLast returns, for the first n-1 indices of an n-word sentence, every
// last index that makes the checksum correct (2^(11-n/3) of them, ascending).
func SolveLast(prefix []int) []int {
	n := len(prefix) + 1
	if !ValidCount(n) {
		panic("ref.SolveLast: bad count")
	}
	csBits := uint(n / 3)
	free := 11 - csBits
	var out []int
	idx := append(append([]int(nil), prefix...), 0)
	for hi := 0; hi < 1<<free; hi++ {
		idx[n-1] = hi << csBits
		e, _ := Unpack(idx)
		out = append(out, hi<<csBits|ChecksumOf(e))
	}
	return out
}

// TokensIndices maps tokens to indices; ok is false when a token is not in the list.
func TokensIndices(l Lang, toks []string) (idx []int, ok bool) {
	idx = make([]int, len(toks))
	for i, t := range toks {
		x, found := WordIndex(l, t)
		if !found {
			return nil, false
		}
		idx[i] = x
	}
	return idx, true
}

// Decode performs the standard BIP39 decoding of a sentence produced for
// language l: split at the prescribed separator, word -> index, concatenate,
// drop the checksum bits. It reports an error instead of guessing.
func Decode(l Lang, sentence string) (entropy []byte, checksumOK bool, err error) {
	toks := strings.Split(sentence, l.Sep())
	if !ValidCount(len(toks)) {
		return nil, false, fmt.Errorf("ref.Decode: %d tokens", len(toks))
	}
	idx, ok := TokensIndices(l, toks)
	if !ok {
		return nil, false, fmt.Errorf("ref.Decode: token not in the canonical %s list", l)
	}
	e, cs := Unpack(idx)
	return e, ChecksumOf(e) == cs, nil
}

// NFKD is the normalisation the specification prescribes (x/text tables).
func NFKD(s string) string { return norm.NFKD.String(s) }

// FieldsValid is the most liberal reading of "is a valid mnemonic": the
// whitespace-separated tokens of the NFKD form are 12..24 list words with a
// correct checksum.
func FieldsValid(l Lang, s string) bool {
	toks := strings.Fields(NFKD(s))
	idx, ok := TokensIndices(l, toks)
	return ok && IndicesValid(idx)
}

// ---- PBKDF2-HMAC-SHA512, written out by hand -------------------------------

const sha512Block = 128

type hmac512 struct {
	ipad, opad [sha512Block]byte
}

func newHMAC512(key []byte) *hmac512 {
	if len(key) > sha512Block {
		s := sha512.Sum512(key)
		key = s[:]
	}
	h := &hmac512{}
	copy(h.ipad[:], key)
	copy(h.opad[:], key)
	for i := range h.ipad {
		h.ipad[i] ^= 0x36
		h.opad[i] ^= 0x5c
	}
	return h
}

func (h *hmac512) sum(msg []byte) [64]byte {
	in := sha512.New()
	in.Write(h.ipad[:])
	in.Write(msg)
	inner := in.Sum(nil)
	out := sha512.New()
	out.Write(h.opad[:])
	out.Write(inner)
	var r [64]byte
	copy(r[:], out.Sum(nil))
	return r
}

// PBKDF2SHA512 computes PBKDF2 with HMAC-SHA512 (RFC 8018 §5.2).
func PBKDF2SHA512(password, salt []byte, iter, keyLen int) []byte {
	h := newHMAC512(password)
	var out []byte
	for block := uint32(1); len(out) < keyLen; block++ {
		msg := append(append([]byte(nil), salt...), byte(block>>24), byte(block>>16), byte(block>>8), byte(block))
		u := h.sum(msg)
		t := u
		for i := 1; i < iter; i++ {
			u = h.sum(u[:])
			for k := range t {
				t[k] ^= u[k]
			}
		}
		out = append(out, t[:]...)
	}
	return out[:keyLen]
}

// Seed is the BIP39 seed of (mnemonic, passphrase).
func Seed(mnemonic, passphrase string) []byte {
	return PBKDF2SHA512([]byte(NFKD(mnemonic)), []byte("mnemonic"+NFKD(passphrase)), 2048, 64)
}

// SHA256First returns the first byte of SHA-256(b).
func SHA256First(b []byte) byte {
	h := sha256.Sum256(b)
	return h[0]
}

// LangByName returns the language with the given declared identifier.
func LangByName(name string) (Lang, bool) {
	for l := Lang(0); l < NumLangs; l++ {
		if infos[l].Name == name {
			return l, true
		}
	}
	return 0, false
}

// ChecksumOfRaw returns the first bits bits of SHA-256(b) for any b.
func ChecksumOfRaw(b []byte, bits int) int {
	h := sha256.Sum256(b)
	return int(h[0]) >> uint(8-bits)
}
