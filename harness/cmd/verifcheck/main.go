// verifcheck is the driver behind ./check: it rebuilds the property tests
// against /repo's current working tree, runs them as parallel shards, merges
// their statistics into evidence/<ID>.json and turns failures into
// "VIOLATION property=<ID> replay=<path>" lines.
//
// Exit codes: 0 the property held on everything explored; 1 violation;
// 2 anything that is not a verdict (build failure, harness error, timeout, crash).
package main

import (
	"bytes"

	"context"
	"crypto/sha256"
	"encoding/binary"
	"encoding/hex"
	"encoding/json"
	"fmt"
	"os"
	"os/exec"
	"path/filepath"
	"regexp"
	"runtime"
	"sort"
	"strconv"
	"strings"
	"sync"
	"syscall"
	"time"
	"verif/harness/gen"
)

var verifRoot = func() string {
	if v := os.Getenv("VERIF_ROOT"); v != "" {
		return v
	}
	return "/verif"
}()

type result struct {
	job      *job
	shard    int
	exit     int
	timedOut bool
	dir      string
	log      string
	wall     time.Duration
}

func die(code int, format string, a ...any) {
	fmt.Fprintf(os.Stderr, "verifcheck: "+format+"\n", a...)
	os.Exit(code)
}

func goEnv() []string {
	env := os.Environ()
	env = append(env, "GOFLAGS=-mod=mod", "GOPROXY=off", "GOSUMDB=off", "GOTOOLCHAIN=local", "GONOSUMDB=*", "GONOSUMCHECK=1", "GOFLAGS=-mod=mod")
	return env
}

func main() {
	if len(os.Args) < 3 {
		die(2, "usage: verifcheck <ID> quick|thorough | <ID> --replay <file>")
	}
	id := os.Args[1]
	if id == "ALL" {
		os.Exit(runAll(os.Args[2]))
	}
	p, ok := props[id]
	if !ok {
		die(2, "unknown property %q", id)
	}
	p.id = id
	mode := os.Args[2]
	if mode == "--replay" {
		if len(os.Args) < 4 {
			die(2, "--replay needs a file")
		}
		os.Exit(replay(p, os.Args[3]))
	}
	if mode != "quick" && mode != "thorough" {
		die(2, "tier must be quick or thorough")
	}
	if t := os.Getenv("VERIF_TIER"); (t == "quick" || t == "thorough") && os.Getenv("VERIF_TIER_OVERRIDE") == "1" {
		mode = t
	}
	os.Exit(run(p, mode))
}

func seedValue() uint64 {
	s := os.Getenv("VERIF_SEED")
	if s == "" {
		return 1
	}
	if v, err := strconv.ParseUint(s, 10, 64); err == nil {
		return v
	}
	if v, err := strconv.ParseInt(s, 10, 64); err == nil {
		return uint64(v)
	}
	h := sha256.Sum256([]byte(s))
	return binary.LittleEndian.Uint64(h[:8])
}

func evidenceDir() string {
	if d := os.Getenv("VERIF_EVIDENCE_DIR"); d != "" {
		return d
	}
	return filepath.Join(verifRoot, "evidence")
}

func replayDir() string {
	if d := os.Getenv("VERIF_REPLAY_DIR"); d != "" {
		return d
	}
	return filepath.Join(verifRoot, "replays")
}

func mkWork(id string) string {
	dir := filepath.Join(verifRoot, ".work", fmt.Sprintf("%s.%d", id, os.Getpid()))
	if err := os.MkdirAll(dir, 0o755); err != nil {
		die(2, "cannot create %s: %v", dir, err)
	}
	return dir
}

// build compiles the property tests (and what else the property needs) against /repo.
func build(p *prop, work string, tier string) (bins map[string]string, ok bool) {
	bins = map[string]string{}
	type target struct {
		key  string
		args []string
	}
	targets := []target{{"props", []string{"test", "-c", "-tags", "verif", "-o", filepath.Join(work, "props.test"), "./props"}}}
	needRace, needTool, needFuzz, need386, needPlain := false, false, false, false, false
	for i := range p.jobs {
		if p.jobs[i].plain && (tier == "thorough" || !p.jobs[i].thoroughOnly) {
			needPlain = true
		}
		if (p.jobs[i].arch == "386" || p.jobs[i].child386) && (tier == "thorough" || !p.jobs[i].thoroughOnly) {
			need386 = true
		}
		if p.jobs[i].fuzz != "" && tier == "thorough" {
			needFuzz = true
		}
		if p.jobs[i].race {
			needRace = true
		}
		if p.jobs[i].tool {
			needTool = true
		}
	}
	if needRace {
		targets = append(targets, target{"race", []string{"test", "-c", "-race", "-tags", "verif", "-o", filepath.Join(work, "props.race.test"), "./props"}})
	}
	if needFuzz {
		// -fuzz at build time adds the coverage instrumentation native fuzzing needs
		targets = append(targets, target{"fuzz", []string{"test", "-c", "-fuzz=Fuzz", "-tags", "verif", "-o", filepath.Join(work, "props.fuzz.test"), "./props"}})
	}
	if need386 {
		// a 32-bit build of the same tests: int is 32 bits wide there (properties quantify over "any int")
		targets = append(targets, target{"props386", []string{"test", "-c", "-tags", "verif", "-o", filepath.Join(work, "props.386.test"), "./props"}})
	}
	if needPlain {
		// the build users get: no "verif" tag. The hook the tests need is supplied through a build
		// overlay (the recorded hook file, its constraint inverted, as an extra file of the package),
		// so that code selected by the absence of the tag is what these jobs exercise.
		repoDir := "/repo"
		if alt := os.Getenv("VERIF_REPO"); alt != "" {
			repoDir = alt
		}
		hook, err := os.ReadFile(filepath.Join(repoDir, "verif_hooks.go"))
		if err != nil || !strings.Contains(string(hook), "//go:build verif\n") {
			die(2, "cannot prepare the untagged build: %s/verif_hooks.go missing or without the expected constraint", repoDir)
		}
		untagged := filepath.Join(work, "hooks_untagged.go")
		os.WriteFile(untagged, []byte(strings.Replace(string(hook), "//go:build verif\n", "//go:build !verif\n", 1)), 0o644)
		ov, _ := json.Marshal(map[string]map[string]string{"Replace": {filepath.Join(repoDir, "zz_verif_hooks_untagged.go"): untagged}})
		ovPath := filepath.Join(work, "untagged.overlay.json")
		os.WriteFile(ovPath, ov, 0o644)
		targets = append(targets, target{"propsplain", []string{"test", "-c", "-vet=off", "-overlay", ovPath, "-o", filepath.Join(work, "props.plain.test"), "./props"}})
	}
	if needTool {
		targets = append(targets, target{"tool", []string{"build", "-tags", "verif", "-o", filepath.Join(work, "update-wordlist"), "github.com/islishude/bip39/update-wordlist"}})
	}
	// development aid: VERIF_REPO=<dir> builds against another checkout of the module
	// (mutation runs in scratch worktrees); unset, the harness go.mod's "replace => /repo" applies.
	if alt := os.Getenv("VERIF_REPO"); alt != "" && alt != "/repo" {
		mod, err := os.ReadFile(filepath.Join(verifRoot, "harness", "go.mod"))
		sum, err2 := os.ReadFile(filepath.Join(verifRoot, "harness", "go.sum"))
		if err != nil || err2 != nil {
			die(2, "cannot read the harness go.mod/go.sum")
		}
		altMod := filepath.Join(work, "alt.mod")
		os.WriteFile(altMod, []byte(strings.Replace(string(mod), "=> /repo", "=> "+alt, 1)), 0o644)
		os.WriteFile(filepath.Join(work, "alt.sum"), sum, 0o644)
		for i := range targets {
			targets[i].args = append([]string{targets[i].args[0], "-modfile=" + altMod}, targets[i].args[1:]...)
		}
	}
	var wg sync.WaitGroup
	var mu sync.Mutex
	good := true
	for _, t := range targets {
		wg.Add(1)
		go func(t target) {
			defer wg.Done()
			cmd := exec.Command("go", t.args...)
			cmd.Dir = filepath.Join(verifRoot, "harness")
			cmd.Env = goEnv()
			if t.key == "props386" {
				cmd.Env = append(cmd.Env, "GOARCH=386")
			}
			out, err := cmd.CombinedOutput()
			mu.Lock()
			defer mu.Unlock()
			if err != nil {
				good = false
				fmt.Fprintf(os.Stderr, "verifcheck: build of %s failed (not a verdict):\n%s\n", t.key, out)
				return
			}
			bins[t.key] = t.args[len(t.args)-2]
			if t.key == "tool" {
				bins[t.key] = filepath.Join(work, "update-wordlist")
			} else if t.key == "props" {
				bins[t.key] = filepath.Join(work, "props.test")
			} else if t.key == "props386" {
				bins[t.key] = filepath.Join(work, "props.386.test")
			} else if t.key == "propsplain" {
				bins[t.key] = filepath.Join(work, "props.plain.test")
			} else if t.key == "fuzz" {
				bins[t.key] = filepath.Join(work, "props.fuzz.test")
			} else {
				bins[t.key] = filepath.Join(work, "props.race.test")
			}
		}(t)
	}
	wg.Wait()
	return bins, good
}

// runAll builds everything once and runs every property's check (development aid: mutation runs).
func runAll(tier string) int {
	if tier != "quick" && tier != "thorough" {
		die(2, "tier must be quick or thorough")
	}
	work := mkWork("ALL")
	defer os.RemoveAll(work)
	union := &prop{id: "ALL", jobs: []job{{race: true, tool: true, fuzz: "x", arch: "386", plain: true}}}
	bins, ok := build(union, work, tier)
	if !ok {
		return 2
	}
	var ids []string
	for id := range props {
		ids = append(ids, id)
	}
	sort.Strings(ids)
	worst := 0
	for _, id := range ids {
		p := props[id]
		p.id = id
		rc := runWith(p, tier, work, bins)
		if rc == 1 || (rc == 2 && worst == 0) {
			worst = rc
		}
		fmt.Printf("RESULT property=%s rc=%d\n", id, rc)
	}
	return worst
}

func run(p *prop, tier string) int {
	work := mkWork(p.id)
	defer os.RemoveAll(work)
	bins, ok := build(p, work, tier)
	if !ok {
		os.RemoveAll(work)
		return 2
	}
	return runWith(p, tier, work, bins)
}

// lookalikeFile computes the hash-collision lookalikes once per driver run (0.6 s on 8 cores) and
// writes them where the property tests load them from.
var lookalikeOnce sync.Once

func lookalikeFile(work string) string {
	path := filepath.Join(work, "lookalikes.json")
	lookalikeOnce.Do(func() {
		b, err := json.Marshal(gen.Lookalikes())
		if err == nil {
			os.WriteFile(path, b, 0o644)
		}
	})
	return path
}

func runWith(p *prop, tier string, work string, bins map[string]string) int {
	start := time.Now()
	if p.id == "C03" || p.id == "C15" {
		os.Setenv("VERIF_LOOKALIKES", lookalikeFile(work))
	}
	seed := seedValue()
	evidencePath := filepath.Join(evidenceDir(), p.id+".json")
	os.MkdirAll(filepath.Dir(evidencePath), 0o755)

	ti := 0
	if tier == "thorough" {
		ti = 1
	}
	type unit struct {
		j     *job
		shard int
	}
	var units []unit
	for i := range p.jobs {
		j := &p.jobs[i]
		if j.thoroughOnly && ti == 0 {
			continue
		}
		n := j.shards[ti]
		if n <= 0 {
			n = 1
		}
		for s := 0; s < n; s++ {
			units = append(units, unit{j, s})
		}
	}
	par := runtime.NumCPU()
	if v, err := strconv.Atoi(os.Getenv("VERIF_PAR")); err == nil && v > 0 {
		par = v
	}
	ctx, cancel := context.WithCancel(context.Background())
	defer cancel()
	sem := make(chan struct{}, par)
	var acquireMu sync.Mutex
	results := make([]result, len(units))
	var wg sync.WaitGroup
	for i, u := range units {
		wg.Add(1)
		go func(i int, u unit) {
			defer wg.Done()
			w := u.j.weight
			if w <= 0 {
				w = 1
			}
			if w > par {
				w = par
			}
			// take all w slots while holding acquireMu: only one unit at a time is part-way through
			// acquiring, so two multi-slot units can never starve each other
			acquireMu.Lock()
			for k := 0; k < w; k++ {
				sem <- struct{}{}
			}
			acquireMu.Unlock()
			defer func() {
				for k := 0; k < w; k++ {
					<-sem
				}
			}()
			if ctx.Err() != nil {
				results[i] = result{job: u.j, shard: u.shard, exit: -1}
				return
			}
			results[i] = runUnit(ctx, p, u.j, u.shard, ti, tier, seed, work, bins)
			if results[i].exit == 1 && tier == "thorough" {
				cancel()
			}
		}(i, u)
	}
	wg.Wait()

	// merge
	merged := newMerge()
	var violations []string
	infra := 0
	known := map[string]bool{}
	for _, r := range results {
		if r.exit == -1 {
			continue // cancelled after a violation elsewhere
		}
		merged.add(filepath.Join(r.dir, "stats.json"))
		if r.job.fuzz != "" {
			if m := regexp.MustCompile(`execs: (\d+)`).FindAllStringSubmatch(r.log, -1); len(m) > 0 {
				n, _ := strconv.ParseInt(m[len(m)-1][1], 10, 64)
				merged.evals += n
				old, _ := merged.extra["native_fuzz_execs"].(float64)
				merged.extra["native_fuzz_execs"] = old + float64(n)
				merged.classes["native-fuzz:"+r.job.fuzz] += n
			}
			if m := regexp.MustCompile(`new interesting: \d+ \(total: (\d+)\)`).FindAllStringSubmatch(r.log, -1); len(m) > 0 {
				n, _ := strconv.ParseInt(m[len(m)-1][1], 10, 64)
				merged.extra["native_fuzz_corpus_"+r.job.fuzz] = float64(n)
			}
		}
		for _, m := range regexp.MustCompile(`KNOWN-FINDING-SEEN: signature=(.*)`).FindAllStringSubmatch(r.log, -1) {
			known[m[1]] = true
		}
		switch {
		case r.exit == 0:
		case r.exit == 1:
			rp := saveReplay(p, r)
			if rp == "" {
				rp = crashReplay(p, r)
			}
			if rp == "" {
				fmt.Fprintf(os.Stderr, "verifcheck: %s shard %d failed without a replay file (not a verdict); output:\n%s\n", r.job.name, r.shard, tail(r.log, 60))
				infra++
			} else {
				violations = append(violations, rp)
			}
		default:
			if cp := crashReplay(p, r); cp != "" {
				violations = append(violations, cp)
			} else {
				what := fmt.Sprintf("exit %d", r.exit)
				if r.timedOut {
					what = "timed out"
				}
				fmt.Fprintf(os.Stderr, "verifcheck: %s shard %d: %s (not a verdict); output:\n%s\n", r.job.name, r.shard, what, tail(r.log, 60))
				infra++
			}
		}
	}
	wall := time.Since(start).Seconds()
	violations = dedup(violations)
	ev := merged.evidence(p, tier, seed, wall, len(violations), len(units))
	if b, err := json.MarshalIndent(ev, "", " "); err == nil {
		tmp := evidencePath + ".tmp"
		if err := os.WriteFile(tmp, append(b, '\n'), 0o644); err == nil {
			os.Rename(tmp, evidencePath)
		}
		// a copy per tier, so that a quick run does not erase what the last thorough run covered
		tierDir := filepath.Join(evidenceDir(), "by-tier")
		if os.MkdirAll(tierDir, 0o755) == nil {
			os.WriteFile(filepath.Join(tierDir, p.id+"."+tier+".json"), append(b, '\n'), 0o644)
		}
	}
	for sig := range known {
		fmt.Printf("KNOWN-FINDING: property=%s %s\n", p.id, knownLine(sig))
	}
	if len(violations) > 0 {
		for _, v := range violations {
			fmt.Printf("VIOLATION property=%s replay=%s\n", p.id, v)
		}
		return 1
	}
	if infra > 0 {
		return 2
	}
	fmt.Printf("OK property=%s tier=%s seed=%d evaluations=%d distinct_nontrivial=%d wall=%.1fs\n", p.id, tier, seed, merged.evals, len(merged.hashes), wall)
	return 0
}

func knownLine(sig string) string {
	b, err := os.ReadFile(filepath.Join(verifRoot, "known_findings.txt"))
	if err == nil {
		for _, l := range strings.Split(string(b), "\n") {
			if strings.HasPrefix(l, "finding:") && strings.Contains(l, "signature="+sig+" ") {
				return strings.TrimSpace(strings.TrimPrefix(l, "finding:"))
			}
		}
	}
	return "signature=" + sig
}

func dedup(in []string) []string {
	seen := map[string]bool{}
	var out []string
	for _, s := range in {
		if !seen[s] {
			seen[s] = true
			out = append(out, s)
		}
	}
	sort.Strings(out)
	return out
}

func tail(s string, n int) string {
	lines := strings.Split(strings.TrimRight(s, "\n"), "\n")
	if len(lines) > n {
		lines = lines[len(lines)-n:]
	}
	return strings.Join(lines, "\n")
}

func rapidSeed(seed uint64, jobIdx, shard int) uint64 {
	v := 1 + 1000003*seed + uint64(jobIdx)*7919 + uint64(shard)
	if v == 0 {
		v = 1
	}
	return v
}

func runUnit(ctx context.Context, p *prop, j *job, shard, ti int, tier string, seed uint64, work string, bins map[string]string) result {
	jobIdx := 0
	for i := range p.jobs {
		if &p.jobs[i] == j {
			jobIdx = i
		}
	}
	dir := filepath.Join(work, fmt.Sprintf("%s-j%d-s%d", p.id, jobIdx, shard))
	os.MkdirAll(dir, 0o755)
	bin := bins["props"] // the parent is never the race build; children are (VERIF_SELF_RACE)
	if j.arch == "386" {
		bin = bins["props386"]
	}
	if j.plain {
		bin = bins["propsplain"]
	}
	nshards := j.shards[ti]
	if nshards <= 0 {
		nshards = 1
	}
	timeout := j.timeout[ti]
	if timeout == 0 {
		timeout = []time.Duration{10 * time.Minute, 60 * time.Minute}[ti]
	}
	args := []string{"-test.run", j.run, "-test.timeout", (timeout + time.Minute).String(), "-test.count=1"}
	if j.checks[ti] > 0 {
		args = append(args, "-rapid.checks", strconv.Itoa(j.checks[ti]), "-rapid.seed", strconv.FormatUint(rapidSeed(seed, jobIdx, shard), 10), "-rapid.shrinktime", "20s", "-rapid.failfile", filepath.Join(dir, "none.fail"))
		if j.steps[ti] > 0 {
			args = append(args, "-rapid.steps", strconv.Itoa(j.steps[ti]))
		}
	}
	if j.fuzz != "" {
		bin = bins["fuzz"]
		if v, err := time.ParseDuration(os.Getenv("VERIF_FUZZTIME")); err == nil && v > 0 {
			j.fuzzTime[ti] = v
		}
		args = []string{"-test.run", "^$", "-test.fuzz", "^" + j.fuzz + "$", "-test.fuzztime", j.fuzzTime[ti].String(), "-test.fuzzcachedir", filepath.Join(dir, "fuzzcache"), "-test.parallel", strconv.Itoa(max(1, j.weight))}
	}
	cctx, cancel := context.WithTimeout(ctx, timeout)
	defer cancel()
	cmd := exec.CommandContext(cctx, bin, args...)
	cmd.Dir = dir
	cmd.SysProcAttr = &syscall.SysProcAttr{Setpgid: true}
	cmd.Cancel = func() error { return syscall.Kill(-cmd.Process.Pid, syscall.SIGKILL) }
	cmd.WaitDelay = 5 * time.Second
	cmd.Env = append(goEnv(),
		"VERIF_TIER="+tier,
		"VERIF_SHARD="+strconv.Itoa(shard),
		"VERIF_SHARDS="+strconv.Itoa(nshards),
		"VERIF_SEED="+strconv.FormatUint(seed, 10),
		"VERIF_STATS="+filepath.Join(dir, "stats.json"),
		"VERIF_FAILCASE="+filepath.Join(dir, "fail.json"),
		"VERIF_KNOWN="+filepath.Join(verifRoot, "known_findings.txt"),
		"VERIF_WORK="+dir,
		"VERIF_SELF="+bins["props"],
		"VERIF_SELF_RACE="+bins["race"],
		"VERIF_TOOL="+bins["tool"],
		"VERIF_REGRESS="+filepath.Join(verifRoot, "harness", "props", "testdata", "regress"),
		"VERIF_PROP="+p.id,
		"VERIF_PLAN=", "VERIF_REPLAY=",
	)
	if j.child386 {
		// fresh child processes are the 32-bit build (the race detector does not exist for 386)
		cmd.Env = append(cmd.Env, "VERIF_SELF="+bins["props386"], "VERIF_SELF_RACE="+bins["props386"])
	}
	if j.plain {
		cmd.Env = append(cmd.Env, "VERIF_SELF="+bins["propsplain"])
	}
	cmd.Env = append(cmd.Env, j.env...)
	var buf bytes.Buffer
	cmd.Stdout = &buf
	cmd.Stderr = &buf
	t0 := time.Now()
	err := cmd.Run()
	r := result{job: j, shard: shard, dir: dir, log: buf.String(), wall: time.Since(t0)}
	if err != nil {
		if ee, ok := err.(*exec.ExitError); ok {
			r.exit = ee.ExitCode()
			if r.exit < 0 {
				r.exit = 98
			}
		} else {
			r.exit = 99
		}
	}
	if cctx.Err() == context.DeadlineExceeded {
		r.timedOut = true
		r.exit = 97
	}
	if ctx.Err() != nil && r.exit != 0 && r.exit != 1 {
		r.exit = -1
	}
	if os.Getenv("VERIF_VERBOSE") != "" {
		fmt.Fprintf(os.Stderr, "--- %s shard %d exit %d (%.1fs)\n%s\n", j.name, shard, r.exit, r.wall.Seconds(), tail(r.log, 30))
	}
	return r
}

// saveReplay copies the shard's failing case to /verif/replays and returns its path.
func saveReplay(p *prop, r result) string {
	src := filepath.Join(r.dir, "fail.json")
	b, err := os.ReadFile(src)
	if err != nil {
		// every property failure goes through judge(), which writes fail.json; without it the
		// process failed for another reason (decided by crashReplay)
		return ""
	}
	h := sha256.Sum256(b)
	dst := filepath.Join(replayDir(), fmt.Sprintf("%s-%s.json", p.id, hex.EncodeToString(h[:6])))
	os.MkdirAll(filepath.Dir(dst), 0o755)
	if err := os.WriteFile(dst, b, 0o644); err != nil {
		return ""
	}
	return dst
}

var crashRe = regexp.MustCompile(`(?m)^(panic: |fatal error: )`)

// crashReplay: the test process died. If the crash goes through the code under
// test it is a violation (the log is the replay unit); otherwise not a verdict.
func crashReplay(p *prop, r result) string {
	if r.timedOut || r.exit == 3 {
		return ""
	}
	if !crashRe.MatchString(r.log) || !strings.Contains(r.log, "github.com/islishude/bip39.") {
		return ""
	}
	b, _ := json.MarshalIndent(map[string]any{"property": p.id, "kind": "crash", "error": tail(r.log, 80), "case": map[string]any{"job": r.job.name, "shard": r.shard}}, "", " ")
	h := sha256.Sum256(b)
	dst := filepath.Join(replayDir(), fmt.Sprintf("%s-crash-%s.json", p.id, hex.EncodeToString(h[:6])))
	os.MkdirAll(filepath.Dir(dst), 0o755)
	if err := os.WriteFile(dst, b, 0o644); err != nil {
		return ""
	}
	return dst
}

func replay(p *prop, path string) int {
	abs, err := filepath.Abs(path)
	if err != nil {
		die(2, "%v", err)
	}
	work := mkWork(p.id + ".replay")
	defer os.RemoveAll(work)
	b, err := os.ReadFile(abs)
	if err != nil {
		os.RemoveAll(work)
		die(2, "%v", err)
	}
	var rf struct {
		Kind string `json:"kind"`
	}
	json.Unmarshal(b, &rf)
	needRace := strings.HasPrefix(rf.Kind, "c12.")
	pp := *p
	pp.jobs = []job{{name: "replay", run: "^TestReplay$", race: needRace, tool: strings.HasPrefix(rf.Kind, "c17.")}}
	bins, ok := build(&pp, work, "quick")
	if !ok {
		os.RemoveAll(work)
		return 2
	}
	j := &pp.jobs[0]
	j.env = []string{"VERIF_REPLAY=" + abs}
	r := runUnit(context.Background(), &pp, j, 0, 0, "quick", seedValue(), work, bins)
	fmt.Print(tail(r.log, 40), "\n")
	switch r.exit {
	case 0:
		fmt.Printf("REPLAY-PASS property=%s replay=%s\n", p.id, abs)
		return 0
	case 1:
		fmt.Printf("VIOLATION property=%s replay=%s\n", p.id, abs)
		return 1
	}
	return 2
}

// ---- merging statistics into evidence ----------------------------------------

type shardStats struct {
	Evaluations   int64             `json:"evaluations"`
	Classes       map[string]int64  `json:"classes"`
	Samples       []json.RawMessage `json:"samples"`
	Rules         []string          `json:"rules"`
	Extra         map[string]any    `json:"extra"`
	Exhaustive    []string          `json:"exhaustive"`
	HashFile      string            `json:"hash_file"`
	HashSaturated bool              `json:"hash_saturated"`
	ExcludedKnown int64             `json:"excluded_known"`
}

type merge struct {
	evals      int64
	classes    map[string]int64
	samples    []json.RawMessage
	rules      []string
	extra      map[string]any
	exhaustive []string
	hashes     map[uint64]struct{}
	saturated  bool
	excluded   int64
	files      int
}

func newMerge() *merge {
	return &merge{classes: map[string]int64{}, extra: map[string]any{}, hashes: map[uint64]struct{}{}}
}

func (m *merge) add(path string) {
	b, err := os.ReadFile(path)
	if err != nil {
		return
	}
	var s shardStats
	if json.Unmarshal(b, &s) != nil {
		return
	}
	m.files++
	m.evals += s.Evaluations
	for k, v := range s.Classes {
		m.classes[k] += v
	}
	if len(m.samples) < 12 {
		for _, x := range s.Samples {
			if len(m.samples) < 12 {
				m.samples = append(m.samples, x)
			}
		}
	}
	for _, r := range s.Rules {
		if !contains(m.rules, r) {
			m.rules = append(m.rules, r)
		}
	}
	for _, r := range s.Exhaustive {
		if !contains(m.exhaustive, r) {
			m.exhaustive = append(m.exhaustive, r)
		}
	}
	for k, v := range s.Extra {
		if f, ok := v.(float64); ok {
			if old, ok := m.extra[k].(float64); ok {
				m.extra[k] = old + f
				continue
			}
		}
		m.extra[k] = v
	}
	m.saturated = m.saturated || s.HashSaturated
	m.excluded += s.ExcludedKnown
	if hb, err := os.ReadFile(s.HashFile); err == nil {
		for i := 0; i+8 <= len(hb); i += 8 {
			m.hashes[binary.LittleEndian.Uint64(hb[i:])] = struct{}{}
		}
	}
}

func contains(xs []string, x string) bool {
	for _, y := range xs {
		if y == x {
			return true
		}
	}
	return false
}

func (m *merge) evidence(p *prop, tier string, seed uint64, wall float64, violations, units int) map[string]any {
	rule := strings.Join(m.rules, " || ")
	if rule == "" {
		rule = p.rule
	}
	if m.saturated {
		rule += " [distinct_nontrivial is a lower bound: a shard's hash set reached its cap]"
	}
	samples := make([]any, 0, len(m.samples))
	for _, s := range m.samples {
		samples = append(samples, s)
	}
	cov := map[string]any{
		"evaluations":         m.evals,
		"distinct_nontrivial": len(m.hashes),
		"rule":                rule,
		"samples":             samples,
		"classes":             m.classes,
		"processes":           units,
		"stats_files_merged":  m.files,
		"excluded_known":      m.excluded,
	}
	if len(m.exhaustive) > 0 {
		cov["exhaustive_domains"] = m.exhaustive
	}
	if p.exhaustive && len(m.exhaustive) > 0 && violations == 0 {
		cov["exhaustive"] = true
	}
	for k, v := range m.extra {
		cov[k] = v
	}
	return map[string]any{
		"property_id": p.id,
		"tier":        tier,
		"seed":        int64(seed & 0x7fffffffffffffff),
		"level":       p.level,
		"coverage":    cov,
		"assumptions": p.assumptions,
		"wall_s":      wall,
		"violations":  violations,
	}
}
