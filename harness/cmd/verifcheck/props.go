package main

import "time"

type job struct {
	name         string
	run          string // -test.run regexp
	shards       [2]int // quick, thorough
	checks       [2]int // rapid checks per shard; 0 = not a rapid test
	steps        [2]int // rapid.steps (state machines); 0 = default
	timeout      [2]time.Duration
	race         bool
	tool         bool
	thoroughOnly bool
	fuzz         string
	fuzzTime     [2]time.Duration
	weight       int    // CPU slots this unit occupies (default 1)
	arch         string // "386": run this job with the 32-bit build of the tests
	child386     bool   // child processes of this job are the 32-bit build (no race detector there)
	plain        bool   // run this job (and its child processes) in the build without the "verif" tag
	env          []string
}

type prop struct {
	id          string
	level       string
	rule        string
	exhaustive  bool
	jobs        []job
	assumptions []string
}

var baseAssumptions = []string{
	"reference model /verif/harness/ref (bit-slice BIP39 encoder/decoder, hand-written HMAC/PBKDF2) is correct; it self-tests against specification vectors on every run",
	"golden word lists under /verif/harness/ref/golden are the canonical BIP39 lists (SHA-256 pinned in source; CRC-32 of nine lists corroborated against the values tyler-smith/go-bip39 asserts)",
	"crypto/sha256, crypto/sha512 and golang.org/x/text/unicode/norm (Unicode 15.0.0) are correct",
	"generated-input search: no claim about inputs that were not generated",
}

var toolAssumptions = append([]string{"the verif hook in update-wordlist only redirects the tool's HTTP fetches to a local server; formatting of the output is not compared (the Makefile runs goimports afterwards); CRLF files and words containing characters html/template escapes are outside the property's domain"}, baseAssumptions...)

var regress = job{name: "regress", run: "^TestRegress$"}

var props = map[string]*prop{
	"C01": {
		level: "exploration", exhaustive: false,
		jobs: []job{
			regress,
			{name: "table-untagged", run: "^TestC01_Table$", plain: true},
			{name: "table-int32", run: "^TestC01_Table$", arch: "386", thoroughOnly: true},
			{name: "random-int32", run: "^TestC01_Random$", arch: "386", shards: [2]int{2, 4}, checks: [2]int{5000, 100000}},
			{name: "after-validation", run: "^TestC01_AfterValidation$"},
			{name: "history", run: "^TestC01_History$", shards: [2]int{2, 8}, checks: [2]int{3000, 60000}},
			{name: "cold", run: "^TestC01_Cold$", shards: [2]int{4, 8}},
			{name: "concurrent", run: "^TestC01_Concurrent$", weight: 8},
			{name: "table", run: "^TestC01_Table$"},
			{name: "random", run: "^TestC01_Random$", shards: [2]int{2, 16}, checks: [2]int{15000, 400000}},
		},
		assumptions: baseAssumptions,
	},
	"C02": {
		level: "exploration",
		jobs: []job{
			regress,
			{name: "windows", run: "^TestC02_Windows$", weight: 8},
			{name: "fresh-sweep", run: "^TestC02_FreshSweep$", shards: [2]int{8, 16}},
			{name: "table-untagged", run: "^TestC02_Table$", plain: true, shards: [2]int{2, 4}},
			{name: "table-int32", run: "^TestC02_Table$", arch: "386", shards: [2]int{2, 4}},
			{name: "concurrent", run: "^TestC02_Concurrent$", weight: 8},
			{name: "table", run: "^TestC02_Table$", shards: [2]int{4, 16}},
			{name: "random", run: "^TestC02_Random$", shards: [2]int{2, 16}, checks: [2]int{15000, 400000}},
		},
		assumptions: baseAssumptions,
	},
	"C03": {
		level: "exploration",
		jobs: []job{
			regress,
			{name: "mutated-untagged", run: "^TestC03_Mutated$", plain: true, checks: [2]int{2500, 40000}},
			{name: "scan-int32", run: "^TestC03_Scan$", arch: "386", checks: [2]int{10, 60}},
			{name: "mutated-int32", run: "^TestC03_Mutated$", arch: "386", checks: [2]int{2500, 40000}},
			{name: "concurrent", run: "^TestC03_Concurrent$", weight: 8},
			{name: "scan", run: "^TestC03_Scan$", shards: [2]int{4, 16}, checks: [2]int{40, 250}},
			{name: "mutated", run: "^TestC03_Mutated$", shards: [2]int{4, 16}, checks: [2]int{8000, 120000}},
			{name: "fuzz-seeds", run: "^FuzzC03$"},
			{name: "fuzz", fuzz: "FuzzC03", thoroughOnly: true, fuzzTime: [2]time.Duration{0, 120 * time.Second}, weight: 16},
		},
		assumptions: baseAssumptions,
	},
	"C12": {
		level: "exploration",
		jobs: []job{
			{name: "regress", run: "^TestRegress$", race: true},
			{name: "plans", run: "^TestC12_Plans$", shards: [2]int{16, 16}, checks: [2]int{15, 600}, race: true},
			{name: "plans-386-children", run: "^TestC12_Plans$", shards: [2]int{4, 8}, checks: [2]int{10, 300}, race: true, child386: true},
		},
		assumptions: append([]string{"the Go race detector (happens-before monitor) reports every unsynchronised pair of accesses that a run executes; schedules are sampled, not enumerated"}, baseAssumptions...),
	},
	"C13": {
		level: "exploration", exhaustive: false,
		jobs: []job{
			regress,
			{name: "pairs-untagged", run: "^TestC13_Pairs$", plain: true, shards: [2]int{4, 8}},
			{name: "pairs-386-children", run: "^TestC13_Pairs$", shards: [2]int{4, 8}, child386: true},
			{name: "pairs", run: "^TestC13_Pairs$", shards: [2]int{8, 16}},
			{name: "histories", run: "^TestC13_Histories$", shards: [2]int{8, 16}, checks: [2]int{40, 1500}},
			{name: "idle", run: "^TestC13_Idle$", thoroughOnly: true},
			{name: "machine", run: "^TestC13_Machine$", shards: [2]int{4, 16}, checks: [2]int{600, 12000}},
		},
		assumptions: baseAssumptions,
	},
	"C14": {
		level: "exploration",
		jobs: []job{
			regress,
			{name: "grid-untagged", run: "^TestC14_Grid$", plain: true, shards: [2]int{2, 4}},
			{name: "grid-gomaxprocs1", run: "^TestC14_Grid$", env: []string{"GOMAXPROCS=1"}},
			{name: "grid-int32", run: "^TestC14_Grid$", arch: "386"},
			{name: "grid", run: "^TestC14_Grid$", shards: [2]int{4, 16}},
			{name: "random", run: "^TestC14_Random$", shards: [2]int{4, 16}, checks: [2]int{6000, 200000}},
			{name: "fuzz-seeds", run: "^FuzzC14$"},
			{name: "concurrent", run: "^TestC14_Concurrent$", shards: [2]int{2, 8}, checks: [2]int{25, 400}, weight: 4},
			{name: "fuzz", fuzz: "FuzzC14", thoroughOnly: true, fuzzTime: [2]time.Duration{0, 120 * time.Second}, weight: 16},
		},
		assumptions: append([]string{"a hang is decided up to a 120 s bound per call on inputs <= 4 MiB (expected: milliseconds)"}, baseAssumptions...),
	},
	"C15": {
		level: "exploration",
		jobs: []job{
			regress,
			{name: "word-sweep", run: "^TestC15_WordSweep$", shards: [2]int{2, 4}},
			{name: "word-sweep-untagged", run: "^TestC15_WordSweep$", plain: true, shards: [2]int{2, 4}},
			{name: "errors-untagged", run: "^TestC15_Errors$", plain: true, checks: [2]int{4000, 60000}},
			{name: "errors-int32", run: "^TestC15_Errors$", arch: "386", shards: [2]int{2, 4}, checks: [2]int{4000, 60000}},
			{name: "concurrent", run: "^TestC15_Concurrent$", weight: 8},
			{name: "errors", run: "^TestC15_Errors$", shards: [2]int{4, 16}, checks: [2]int{5000, 300000}},
			{name: "fuzz", fuzz: "FuzzC15", thoroughOnly: true, fuzzTime: [2]time.Duration{0, 60 * time.Second}, weight: 16},
		},
		assumptions: baseAssumptions,
	},
	"C04": {
		level: "exploration",
		jobs: []job{
			regress,
			{name: "seed-untagged", run: "^TestC04_Seed$", plain: true, checks: [2]int{60, 300}},
			{name: "seed-gomaxprocs1", run: "^TestC04_Seed$", env: []string{"GOMAXPROCS=1"}, checks: [2]int{60, 300}},
			{name: "seed-int32", run: "^TestC04_Seed$", arch: "386", shards: [2]int{2, 4}, checks: [2]int{120, 500}},
			{name: "concurrent", run: "^TestC04_Concurrent$", weight: 8},
			{name: "seed", run: "^TestC04_Seed$", shards: [2]int{8, 16}, checks: [2]int{200, 5000}},
		},
		assumptions: baseAssumptions,
	},
	"C10": {
		level: "exploration",
		jobs: []job{
			regress,
			{name: "respell-untagged", run: "^TestC10_Respell$", plain: true, checks: [2]int{2500, 30000}},
			{name: "sweep-int32", run: "^TestC10_WordSweep$", arch: "386", shards: [2]int{2, 4}},
			{name: "respell-int32", run: "^TestC10_Respell$", arch: "386", checks: [2]int{2500, 30000}},
			{name: "concurrent", run: "^TestC10_Concurrent$", weight: 8},
			{name: "sweep", run: "^TestC10_WordSweep$", shards: [2]int{2, 10}},
			{name: "respell", run: "^TestC10_Respell$", shards: [2]int{4, 16}, checks: [2]int{4000, 100000}},
			{name: "fuzz", fuzz: "FuzzC10", thoroughOnly: true, fuzzTime: [2]time.Duration{0, 60 * time.Second}, weight: 16},
		},
		assumptions: baseAssumptions,
	},
	"C11": {
		level: "exploration",
		jobs: []job{
			regress,
			{name: "respell-untagged", run: "^TestC11_Respell$", plain: true, checks: [2]int{100, 1500}},
			{name: "sweep-int32", run: "^TestC11_WordSweep$", arch: "386", shards: [2]int{8, 8}, thoroughOnly: true},
			{name: "respell-int32", run: "^TestC11_Respell$", arch: "386", shards: [2]int{2, 4}, checks: [2]int{100, 1500}},
			{name: "concurrent", run: "^TestC11_Concurrent$", weight: 8},
			{name: "sweep", run: "^TestC11_WordSweep$", shards: [2]int{12, 16}},
			{name: "respell", run: "^TestC11_Respell$", shards: [2]int{4, 16}, checks: [2]int{150, 3000}},
		},
		assumptions: baseAssumptions,
	},
	"C05": {
		level: "exploration",
		jobs: []job{
			regress,
			{name: "table-untagged", run: "^TestC05_Table$", plain: true, shards: [2]int{2, 4}},
			{name: "table-int32", run: "^TestC05_Table$", arch: "386", shards: [2]int{2, 4}},
			{name: "concurrent", run: "^TestC05_Concurrent$", weight: 8},
			{name: "table", run: "^TestC05_Table$", shards: [2]int{2, 16}},
			{name: "flips", run: "^TestC05_Flips$", shards: [2]int{4, 16}, checks: [2]int{100, 5000}},
			{name: "history", run: "^TestC05_History$", shards: [2]int{2, 8}, checks: [2]int{1500, 30000}},
			{name: "cold", run: "^TestC05_Cold$", shards: [2]int{4, 8}},
			{name: "via-source", run: "^TestC05_ViaSource$", shards: [2]int{2, 8}, checks: [2]int{3000, 60000}},
		},
		assumptions: baseAssumptions,
	},
	"C06": {
		level: "fault_enumeration", exhaustive: true,
		jobs: []job{
			regress,
			{name: "grid-untagged", run: "^TestC06_Grid$", plain: true, shards: [2]int{2, 4}},
			{name: "grid-int32", run: "^TestC06_Grid$", arch: "386", shards: [2]int{2, 4}},
			{name: "concurrent", run: "^TestC06_Concurrent$", weight: 8},
			{name: "grid", run: "^TestC06_Grid$", shards: [2]int{2, 8}},
			{name: "random", run: "^TestC06_Random$", shards: [2]int{2, 16}, checks: [2]int{10000, 200000}},
			{name: "fuzz", fuzz: "FuzzC06", thoroughOnly: true, fuzzTime: [2]time.Duration{0, 60 * time.Second}, weight: 16},
		},
		assumptions: baseAssumptions,
	},
	"C07": {
		level: "exploration",
		jobs: []job{
			regress,
			{name: "children-untagged", run: "^TestC07_Children$", plain: true, shards: [2]int{2, 4}, checks: [2]int{10, 300}},
			{name: "inprocess-untagged", run: "^TestC07_InProcess$", plain: true, thoroughOnly: true},
			{name: "concurrent", run: "^TestC07_Concurrent$", weight: 8},
			{name: "children", run: "^TestC07_Children$", shards: [2]int{8, 16}, checks: [2]int{30, 1500}},
			{name: "inprocess", run: "^TestC07_InProcess$"},
			{name: "faulty", run: "^TestC07_Faulty$"},
			{name: "global-replaced", run: "^TestC07_GlobalReplaced$"},
			{name: "slow", run: "^TestC07_Slow$", timeout: [2]time.Duration{3 * time.Minute, 10 * time.Minute}},
		},
		assumptions: append([]string{"crypto/rand.Reader is the operating-system CSPRNG; randomness quality is not established by sampling: the claim rests on interface identity plus byte-exact use of the source"}, baseAssumptions...),
	},
	"C08": {
		level: "exploration", exhaustive: true,
		jobs: []job{
			regress,
			{name: "idle", run: "^TestC08_Idle$", thoroughOnly: true},
			{name: "list-untagged", run: "^TestC08_List$", plain: true},
			{name: "back-untagged", run: "^TestC08_Back$", plain: true, shards: [2]int{4, 8}},
			{name: "cold-concurrent", run: "^TestC08_ColdConcurrent$", shards: [2]int{2, 4}, weight: 4},
			{name: "list-int32", run: "^TestC08_List$", arch: "386"},
			{name: "back-int32", run: "^TestC08_Back$", arch: "386", shards: [2]int{4, 8}},
			{name: "list", run: "^TestC08_List$", shards: [2]int{1, 10}},
			{name: "source", run: "^TestC08_Source$"},
			{name: "shared", run: "^TestC08_Shared$", shards: [2]int{2, 16}, checks: [2]int{1500, 40000}},
			{name: "back", run: "^TestC08_Back$", shards: [2]int{4, 16}},
		},
		assumptions: baseAssumptions,
	},
	"C09": {
		level: "exploration", exhaustive: true,
		jobs: []job{
			regress,
			{name: "range-untagged", run: "^TestC09_Range$", plain: true},
			{name: "range-int32", run: "^TestC09_Range$", arch: "386"},
			{name: "range", run: "^TestC09_Range$", shards: [2]int{1, 16}},
			{name: "random", run: "^TestC09_Random$", shards: [2]int{1, 16}, checks: [2]int{20000, 300000}},
			{name: "fuzz", fuzz: "FuzzC09", thoroughOnly: true, fuzzTime: [2]time.Duration{0, 60 * time.Second}, weight: 16},
		},
		assumptions: baseAssumptions,
	},
	"C17": {
		level: "exploration",
		jobs: []job{
			{name: "regress", run: "^TestRegress$", tool: true},
			{name: "tool", run: "^TestC17_Tool$", shards: [2]int{8, 16}, checks: [2]int{12, 400}, tool: true},
		},
		assumptions: toolAssumptions,
	},
	"C16": {
		level: "exploration", exhaustive: true,
		jobs: []job{
			regress,
			{name: "cold-concurrent", run: "^TestC16_ColdConcurrent$", shards: [2]int{2, 8}, weight: 4},
			{name: "range-untagged", run: "^TestC16_Range$", plain: true},
			{name: "range-int32", run: "^TestC16_Range$", arch: "386"},
			{name: "concurrent", run: "^TestC16_Concurrent$", weight: 8},
			{name: "range", run: "^TestC16_Range$", shards: [2]int{1, 16}},
			{name: "random", run: "^TestC16_Random$", shards: [2]int{1, 16}, checks: [2]int{20000, 1000000}},
		},
		assumptions: baseAssumptions,
	},
}
