package main

import "time"

type job struct {
	name         string
	run          string // -test.run regexp
	shards       [2]int // quick, thorough
	checks       [2]int // rapid checks per shard; 0 = not a rapid test
	steps        [2]int // rapid.steps (state machines); 0 = default
	timeout      [2]time.Duration
	race         bool
	tool         bool
	thoroughOnly bool
	fuzz         string
	fuzzTime     [2]time.Duration
	weight       int // CPU slots this unit occupies (default 1)
	env          []string
}

type prop struct {
	id          string
	level       string
	rule        string
	exhaustive  bool
	jobs        []job
	assumptions []string
}

var baseAssumptions = []string{
	"reference model /verif/harness/ref (bit-slice BIP39 encoder/decoder, hand-written HMAC/PBKDF2) is correct; it self-tests against specification vectors on every run",
	"golden word lists under /verif/harness/ref/golden are the canonical BIP39 lists (SHA-256 pinned in source; CRC-32 of nine lists corroborated against the values tyler-smith/go-bip39 asserts)",
	"crypto/sha256, crypto/sha512 and golang.org/x/text/unicode/norm (Unicode 15.0.0) are correct",
	"generated-input search: no claim about inputs that were not generated",
}

var regress = job{name: "regress", run: "^TestRegress$"}

var props = map[string]*prop{
	"C01": {
		level: "exploration", exhaustive: false,
		jobs: []job{
			regress,
			{name: "table", run: "^TestC01_Table$"},
			{name: "random", run: "^TestC01_Random$", shards: [2]int{2, 16}, checks: [2]int{15000, 400000}},
		},
		assumptions: baseAssumptions,
	},
	"C02": {
		level: "exploration",
		jobs: []job{
			regress,
			{name: "table", run: "^TestC02_Table$", shards: [2]int{4, 16}},
			{name: "random", run: "^TestC02_Random$", shards: [2]int{2, 16}, checks: [2]int{15000, 400000}},
		},
		assumptions: baseAssumptions,
	},
	"C03": {
		level: "exploration",
		jobs: []job{
			regress,
			{name: "scan", run: "^TestC03_Scan$", shards: [2]int{4, 16}, checks: [2]int{40, 700}},
			{name: "mutated", run: "^TestC03_Mutated$", shards: [2]int{4, 16}, checks: [2]int{8000, 400000}},
		},
		assumptions: baseAssumptions,
	},
	"C15": {
		level: "exploration",
		jobs: []job{
			regress,
			{name: "errors", run: "^TestC15_Errors$", shards: [2]int{4, 16}, checks: [2]int{5000, 300000}},
		},
		assumptions: baseAssumptions,
	},
	"C04": {
		level: "exploration",
		jobs: []job{
			regress,
			{name: "seed", run: "^TestC04_Seed$", shards: [2]int{8, 16}, checks: [2]int{200, 15000}},
		},
		assumptions: baseAssumptions,
	},
	"C10": {
		level: "exploration",
		jobs: []job{
			regress,
			{name: "sweep", run: "^TestC10_WordSweep$", shards: [2]int{2, 10}},
			{name: "respell", run: "^TestC10_Respell$", shards: [2]int{4, 16}, checks: [2]int{4000, 100000}},
		},
		assumptions: baseAssumptions,
	},
	"C11": {
		level: "exploration",
		jobs: []job{
			regress,
			{name: "sweep", run: "^TestC11_WordSweep$", shards: [2]int{12, 16}},
			{name: "respell", run: "^TestC11_Respell$", shards: [2]int{4, 16}, checks: [2]int{150, 3000}},
		},
		assumptions: baseAssumptions,
	},
	"C05": {
		level: "exploration",
		jobs: []job{
			regress,
			{name: "table", run: "^TestC05_Table$", shards: [2]int{2, 16}},
			{name: "flips", run: "^TestC05_Flips$", shards: [2]int{4, 16}, checks: [2]int{100, 5000}},
		},
		assumptions: baseAssumptions,
	},
	"C08": {
		level: "exploration", exhaustive: true,
		jobs: []job{
			regress,
			{name: "list", run: "^TestC08_List$", shards: [2]int{1, 10}},
			{name: "back", run: "^TestC08_Back$", shards: [2]int{4, 16}},
		},
		assumptions: baseAssumptions,
	},
	"C09": {
		level: "exploration", exhaustive: true,
		jobs: []job{
			regress,
			{name: "range", run: "^TestC09_Range$", shards: [2]int{1, 16}},
			{name: "random", run: "^TestC09_Random$", shards: [2]int{1, 16}, checks: [2]int{20000, 300000}},
		},
		assumptions: baseAssumptions,
	},
	"C16": {
		level: "exploration", exhaustive: true,
		jobs: []job{
			regress,
			{name: "range", run: "^TestC16_Range$", shards: [2]int{1, 16}},
			{name: "random", run: "^TestC16_Random$", shards: [2]int{1, 16}, checks: [2]int{20000, 1000000}},
		},
		assumptions: baseAssumptions,
	},
}
