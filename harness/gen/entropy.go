// Package gen holds the rapid generators of the harness. Everything random is
// drawn through rapid so that failing cases shrink and replay.
package gen

import (
	"crypto/sha256"
	"fmt"
	"sort"

	"pgregory.net/rapid"

	"verif/harness/ref"
)

// Ent is a generated entropy with the shape it was built from.
type Ent struct {
	Bytes []byte
	Shape string
}

// Size draws one of the five valid entropy sizes.
func Size() *rapid.Generator[int] { return rapid.SampledFrom(ref.Sizes) }

// Count draws one of the five valid word counts.
func Count() *rapid.Generator[int] { return rapid.SampledFrom(ref.Counts) }

// Lang draws one of the ten supported languages.
func Lang() *rapid.Generator[ref.Lang] {
	return rapid.Custom(func(t *rapid.T) ref.Lang {
		return ref.Lang(rapid.IntRange(0, int(ref.NumLangs)-1).Draw(t, "lang"))
	})
}

func setBit(b []byte, i int, v bool) {
	if v {
		b[i/8] |= 1 << uint(7-i%8)
	} else {
		b[i/8] &^= 1 << uint(7-i%8)
	}
}

// interesting 11-bit indices: both ends of the list, powers of two, and values
// whose high bits are zero (leading words of index < 8 are what a dropped
// leading zero byte looks like).
var edgeIdx = []int{0, 1, 2, 3, 7, 8, 15, 16, 255, 256, 1023, 1024, 2040, 2046, 2047}

// Index draws an 11-bit word index, weighted towards edges.
func Index() *rapid.Generator[int] {
	return rapid.OneOf(rapid.IntRange(0, 2047), rapid.SampledFrom(edgeIdx), rapid.IntRange(0, 7))
}

// FromIndices builds the entropy of the given size whose words are idx
// (len(idx) = 3*size/4); of the last index only the top 11-CS bits are used.
func FromIndices(size int, idx []int) []byte {
	n := size / 4 * 3
	if len(idx) != n {
		panic(fmt.Sprintf("gen.FromIndices: %d indices for size %d", len(idx), size))
	}
	e := make([]byte, size)
	bit := 0
	for _, x := range idx {
		for k := 10; k >= 0 && bit < size*8; k-- {
			setBit(e, bit, x>>uint(k)&1 == 1)
			bit++
		}
	}
	return e
}

// Entropy draws a valid entropy of a structured shape.
func Entropy() *rapid.Generator[Ent] {
	return rapid.Custom(func(t *rapid.T) Ent {
		size := Size().Draw(t, "size")
		return EntropyOfSize(size).Draw(t, "entropy")
	})
}

// TextAlphabets: the alphabets of "text-like" byte strings (hex, digits, base64, printable).
var TextAlphabets = []string{"0123456789abcdef", "0123456789ABCDEF", "0123456789abcdefABCDEF", "0123456789",
	"ABCDEFGHIJKLMNOPQRSTUVWXYZabcdefghijklmnopqrstuvwxyz0123456789+/", "abcdefghijklmnopqrstuvwxyz ", " !\"#$%&'()*+,-./0123456789:;<=>?@ABCDEFGHIJKLMNOPQRSTUVWXYZ[\\]^_`abcdefghijklmnopqrstuvwxyz{|}~"}

// TextBytes draws n bytes that all come from one textual alphabet (what a caller passes who
// forgot to decode a hex or base64 string), or one repeated byte.
func TextBytes(n int) *rapid.Generator[[]byte] {
	return rapid.Custom(func(t *rapid.T) []byte {
		e := make([]byte, n)
		alpha := rapid.SampledFrom(TextAlphabets).Draw(t, "alphabet")
		if rapid.IntRange(0, 4).Draw(t, "repeat") == 0 {
			alpha = string(alpha[rapid.IntRange(0, len(alpha)-1).Draw(t, "one")])
		}
		for i := range e {
			e[i] = alpha[rapid.IntRange(0, len(alpha)-1).Draw(t, "ch")]
		}
		return e
	})
}

// EntropyOfSize draws a valid entropy of the given size.
func EntropyOfSize(size int) *rapid.Generator[Ent] {
	return rapid.Custom(func(t *rapid.T) Ent {
		bitsN := size * 8
		shape := rapid.SampledFrom([]string{
			"uniform", "uniform", "lead-zero-bytes", "lead-zero-bytes", "lead-zero-bits", "lead-one-bits",
			"trail-zero-bits", "trail-one-bits", "all-zero", "all-one", "single-bit", "indices", "hash-byte", "sparse",
			"text-like", "repeated-byte", "dictionary",
		}).Draw(t, "shape")
		e := make([]byte, size)
		uniform := func() {
			copy(e, rapid.SliceOfN(rapid.Byte(), size, size).Draw(t, "bytes"))
		}
		switch shape {
		case "uniform":
			uniform()
		case "lead-zero-bytes":
			uniform()
			k := rapid.IntRange(1, size).Draw(t, "k")
			for i := 0; i < k; i++ {
				e[i] = 0
			}
			if k < size && e[k] == 0 {
				e[k] = byte(rapid.IntRange(1, 255).Draw(t, "first"))
			}
			shape = fmt.Sprintf("lead-zero-bytes")
		case "lead-zero-bits", "lead-one-bits":
			uniform()
			k := rapid.IntRange(1, bitsN).Draw(t, "k")
			for i := 0; i < k; i++ {
				setBit(e, i, shape == "lead-one-bits")
			}
		case "trail-zero-bits", "trail-one-bits":
			uniform()
			k := rapid.IntRange(1, bitsN).Draw(t, "k")
			for i := 0; i < k; i++ {
				setBit(e, bitsN-1-i, shape == "trail-one-bits")
			}
		case "all-zero":
		case "all-one":
			for i := range e {
				e[i] = 0xff
			}
		case "single-bit":
			setBit(e, rapid.IntRange(0, bitsN-1).Draw(t, "bit"), true)
		case "text-like":
			// every byte from one textual alphabet: entropy that "looks like" hex, digits, base64 or
			// printable text (what input-sniffing conveniences key on)
			alpha := rapid.SampledFrom(TextAlphabets).Draw(t, "alphabet")
			for i := range e {
				e[i] = alpha[rapid.IntRange(0, len(alpha)-1).Draw(t, "ch")]
			}
		case "dictionary":
			// a literal from the code under test placed at the head, the tail or anywhere
			uniform()
			if len(dictionary) == 0 {
				shape = "uniform"
				break
			}
			for k := rapid.IntRange(1, 2).Draw(t, "tokens"); k > 0; k-- {
				tok := dictionary[rapid.IntRange(0, len(dictionary)-1).Draw(t, "tok")]
				if len(tok) > size {
					tok = tok[:size]
				}
				at := rapid.SampledFrom([]int{0, size - len(tok), rapid.IntRange(0, size-len(tok)).Draw(t, "off")}).Draw(t, "where")
				copy(e[at:], tok)
			}
		case "repeated-byte":
			b := rapid.Byte().Draw(t, "b")
			for i := range e {
				e[i] = b
			}
		case "sparse":
			for i := range e {
				e[i] = rapid.SampledFrom([]byte{0, 0, 0, 0xff, 0x80, 0x01, 0x7f}).Draw(t, "b")
			}
		case "indices":
			idx := rapid.SliceOfN(Index(), size/4*3, size/4*3).Draw(t, "idx")
			e = FromIndices(size, idx)
		case "hash-byte":
			// counter search: first SHA-256 byte equals a drawn target
			target := rapid.Byte().Draw(t, "target")
			uniform()
			for c := 0; c < 1<<16; c++ {
				e[size-1], e[size-2] = byte(c), byte(c>>8)
				if h := sha256.Sum256(e); h[0] == target {
					break
				}
			}
		}
		return Ent{Bytes: e, Shape: shape}
	})
}

// LeadingZeroBytes counts the zero bytes at the start of b.
func LeadingZeroBytes(b []byte) int {
	n := 0
	for n < len(b) && b[n] == 0 {
		n++
	}
	return n
}

// ValidIndices draws the indices of a valid sentence: n-1 free indices and a
// last index chosen among the reference model's solutions.
func ValidIndices() *rapid.Generator[[]int] {
	return rapid.Custom(func(t *rapid.T) []int {
		n := Count().Draw(t, "n")
		return ValidIndicesOfCount(n).Draw(t, "indices")
	})
}

// ValidIndicesOfCount is ValidIndices for a fixed word count.
func ValidIndicesOfCount(n int) *rapid.Generator[[]int] {
	return rapid.Custom(func(t *rapid.T) []int {
		prefix := rapid.SliceOfN(Index(), n-1, n-1).Draw(t, "prefix")
		sol := ref.SolveLast(prefix)
		last := sol[rapid.IntRange(0, len(sol)-1).Draw(t, "last")]
		return append(prefix, last)
	})
}

// ExtremeIndices returns the indices of a valid n-word sentence made of the longest (or
// shortest) words of the list, measured in bytes: the sentences whose byte length is as far
// from a random sentence's as the list allows. variant rotates through the top words.
func ExtremeIndices(l ref.Lang, n int, longest bool, variant int) []int {
	g := ref.Golden(l)
	order := make([]int, len(g))
	for i := range order {
		order[i] = i
	}
	sort.SliceStable(order, func(a, b int) bool {
		if longest {
			return len(g[order[a]]) > len(g[order[b]])
		}
		return len(g[order[a]]) < len(g[order[b]])
	})
	prefix := make([]int, n-1)
	for i := range prefix {
		prefix[i] = order[(i/3+variant)%24] // the 24 most extreme words, each repeated
	}
	sol := ref.SolveLast(prefix)
	best := sol[0]
	for _, x := range sol {
		if (longest && len(g[x]) > len(g[best])) || (!longest && len(g[x]) < len(g[best])) {
			best = x
		}
	}
	return append(prefix, best)
}

// dictionary: byte patterns harvested from the literals of the code under test (the fuzzing
// "dictionary" idea): magic values a comparison in the code may key on.
var dictionary [][]byte

// SetDictionary installs the harvested byte patterns (called once by the test binary).
func SetDictionary(d [][]byte) { dictionary = d }

// DictionarySize reports how many patterns are installed.
func DictionarySize() int { return len(dictionary) }
