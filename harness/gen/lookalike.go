package gen

import (
	"hash/crc32"
	"sync"

	"verif/harness/ref"
)

// Lookalike is an ASCII token that is not a list word but has the same byte length and the same
// 32-bit hash, under a common non-cryptographic hash function, as a list word of some language:
// a lookup keyed by such a hash instead of the word itself cannot tell them apart.
type Lookalike struct {
	Lang  ref.Lang
	Index int
	Token string
	Hash  string
}

var (
	lookOnce sync.Once
	lookList []Lookalike
)

func fnv1a32(b []byte) uint32 {
	h := uint32(2166136261)
	for _, c := range b {
		h ^= uint32(c)
		h *= 16777619
	}
	return h
}

func fnv132(b []byte) uint32 {
	h := uint32(2166136261)
	for _, c := range b {
		h *= 16777619
		h ^= uint32(c)
	}
	return h
}

func java31(b []byte) uint32 {
	h := uint32(0)
	for _, c := range b {
		h = h*31 + uint32(c)
	}
	return h
}

func djb2(b []byte) uint32 {
	h := uint32(5381)
	for _, c := range b {
		h = h*33 + uint32(c)
	}
	return h
}

// SetLookalikes installs precomputed lookalikes (the driver computes them once per run).
func SetLookalikes(l []Lookalike) { lookOnce.Do(func() {}); lookList = l }

// HaveLookalikes returns the installed lookalikes without triggering a search.
func HaveLookalikes() []Lookalike { return lookList }

// Lookalikes searches (once per process, deterministic, bounded, 8 workers) for such tokens.
func Lookalikes() []Lookalike {
	lookOnce.Do(func() {
		type target struct {
			l   ref.Lang
			idx int
		}
		hashes := []struct {
			name string
			f    func([]byte) uint32
		}{{"FNV-1a-32", fnv1a32}, {"FNV-1-32", fnv132}, {"CRC-32", func(b []byte) uint32 { return crc32.ChecksumIEEE(b) }}, {"31x+c", java31}, {"djb2", djb2}}
		maps := make([]map[uint64]target, len(hashes))
		for hi := range hashes {
			maps[hi] = map[uint64]target{}
		}
		words := map[string]bool{}
		lens := map[int]bool{}
		for l := ref.Lang(0); l < ref.NumLangs; l++ {
			for i, w := range ref.Golden(l) {
				words[w] = true
				lens[len(w)] = true
				for hi := range hashes {
					maps[hi][uint64(len(w))<<32|uint64(hashes[hi].f([]byte(w)))] = target{l, i}
				}
			}
		}
		var lengths []int
		for n := 3; n <= 12; n++ {
			if lens[n] {
				lengths = append(lengths, n)
			}
		}
		const workers = 8
		results := make([][]Lookalike, workers)
		var wg sync.WaitGroup
		for w := 0; w < workers; w++ {
			wg.Add(1)
			go func(w int) {
				defer wg.Done()
				state := uint64(0x9e3779b97f4a7c15) * uint64(w+1)
				buf := make([]byte, 12)
				for trial := 0; trial < 3_000_000; trial++ {
					state = state*6364136223846793005 + 1442695040888963407
					x := state
					n := lengths[int(x>>58)%len(lengths)]
					for i := 0; i < n; i++ {
						buf[i] = 'a' + byte(x%26)
						x /= 26
						if i == 7 {
							state = state*6364136223846793005 + 1442695040888963407
							x = state
						}
					}
					tok := buf[:n]
					for hi := range hashes {
						if tg, ok := maps[hi][uint64(n)<<32|uint64(hashes[hi].f(tok))]; ok && !words[string(tok)] {
							results[w] = append(results[w], Lookalike{Lang: tg.l, Index: tg.idx, Token: string(tok), Hash: hashes[hi].name})
						}
					}
				}
			}(w)
		}
		wg.Wait()
		for _, r := range results {
			lookList = append(lookList, r...)
		}
	})
	return lookList
}
