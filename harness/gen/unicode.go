package gen

import (
	"sort"
	"strings"
	"sync"
	"unicode"
	"unicode/utf8"

	"golang.org/x/text/unicode/norm"
	"pgregory.net/rapid"

	"verif/harness/ref"
)

// NFKDSpaces are the runes whose NFKD form is U+0020 (besides U+0020 itself).
var NFKDSpaces = []rune{0x00a0, 0x2002, 0x2003, 0x2004, 0x2005, 0x2006, 0x2007, 0x2008, 0x2009, 0x200a, 0x202f, 0x205f, 0x3000}

var (
	invOnce     sync.Once
	invTable    map[string][]rune // NFKD expansion -> runes that decompose to it
	invMaxLen   int               // longest expansion in runes
	decompRunes []rune            // every rune changed by NFKD
	markRunes   []rune            // a spread of combining marks
)

func buildInv() {
	invOnce.Do(func() {
		invTable = map[string][]rune{}
		for r := rune(0); r <= unicode.MaxRune; r++ {
			if r >= 0xd800 && r <= 0xdfff {
				continue
			}
			s := string(r)
			d := norm.NFKD.String(s)
			if d == s {
				continue
			}
			invTable[d] = append(invTable[d], r)
			decompRunes = append(decompRunes, r)
			if n := utf8.RuneCountInString(d); n > invMaxLen {
				invMaxLen = n
			}
		}
		if invMaxLen > 6 {
			invMaxLen = 6
		}
		for _, rt := range unicode.Mn.R16 {
			for r := rune(rt.Lo); r <= rune(rt.Hi); r += rune(rt.Stride) {
				markRunes = append(markRunes, r)
			}
		}
	})
}

// InverseNFKD returns the runes whose NFKD form is exactly d.
func InverseNFKD(d string) []rune { buildInv(); return invTable[d] }

// DecomposableRunes returns every rune that NFKD changes (do not modify).
func DecomposableRunes() []rune { buildInv(); return decompRunes }

// Forms are the four normal forms by name.
var Forms = map[string]norm.Form{"NFC": norm.NFC, "NFD": norm.NFD, "NFKC": norm.NFKC, "NFKD": norm.NFKD}

// FormNames in a fixed order.
var FormNames = []string{"NFC", "NFD", "NFKC", "NFKD"}

// FullWidth maps printable ASCII to the full-width block where defined.
func FullWidth(s string) string {
	var b strings.Builder
	for _, r := range s {
		if r >= 0x21 && r <= 0x7e {
			b.WriteRune(r - 0x21 + 0xff01)
		} else if r == ' ' {
			b.WriteRune(0x3000)
		} else {
			b.WriteRune(r)
		}
	}
	return b.String()
}

// Respelled is a string with the same NFKD form as its origin.
type Respelled struct {
	S      string
	Method string
	// Unsound counts variants that were discarded because the NFKD forms differed
	// (interaction of a substitution with its neighbours); expected to stay rare.
	Unsound int
}

// Respell draws a spelling s' with NFKD(s') == NFKD(s). Soundness is enforced:
// the relation is recomputed and an unsound candidate is replaced by s itself.
func Respell(s string) *rapid.Generator[Respelled] {
	return rapid.Custom(func(t *rapid.T) Respelled {
		buildInv()
		want := norm.NFKD.String(s)
		method := rapid.SampledFrom([]string{"NFC", "NFD", "NFKC", "NFKD", "per-token", "fullwidth", "spaces", "one-space", "inverse", "inverse", "inverse-low", "mixed"}).Draw(t, "method")
		var out string
		switch method {
		case "NFC", "NFD", "NFKC", "NFKD":
			out = Forms[method].String(s)
		case "fullwidth":
			out = FullWidth(s)
		case "spaces":
			out = respellSpaces(t, s)
		case "per-token":
			toks := strings.Split(s, " ")
			for i, tk := range toks {
				toks[i] = Forms[rapid.SampledFrom(FormNames).Draw(t, "form")].String(tk)
			}
			out = strings.Join(toks, " ")
		case "one-space":
			// every U+0020 replaced by the same compatibility space (a validator or fast path
			// that special-cases some of them sees a string made of that one only)
			out = strings.ReplaceAll(s, " ", string(rapid.SampledFrom(NFKDSpaces).Draw(t, "space")))
		case "inverse":
			out = inverseSubst(t, want, rapid.IntRange(1, 8).Draw(t, "k"))
		case "inverse-low":
			// substitutions restricted to runes below a drawn threshold: strings whose highest rune
			// sits just under the bounds a "plain text" fast path is likely to use
			limit := rapid.SampledFrom([]rune{0xc0, 0x100, 0x300, 0x2000, 0x3000}).Draw(t, "limit")
			out = inverseSubstBelow(t, want, rapid.IntRange(1, 6).Draw(t, "k"), limit)
		default: // mixed
			out = inverseSubst(t, want, rapid.IntRange(1, 4).Draw(t, "k"))
			out = respellSpaces(t, out)
			if rapid.Bool().Draw(t, "nfc") {
				out = norm.NFC.String(out)
			}
		}
		if out == s && s != "" {
			// the chosen method is the identity on this string: substitute instead
			out = respellSpaces(t, inverseSubst(t, want, rapid.IntRange(1, 6).Draw(t, "k2")))
			method += "->inverse"
		}
		r := Respelled{S: out, Method: method}
		if norm.NFKD.String(out) != want {
			r.S, r.Unsound, r.Method = s, 1, method+"(discarded)"
		}
		return r
	})
}

func respellSpaces(t *rapid.T, s string) string {
	var b strings.Builder
	for _, r := range s {
		if r == ' ' && rapid.IntRange(0, 2).Draw(t, "sp") > 0 {
			b.WriteRune(rapid.SampledFrom(NFKDSpaces).Draw(t, "space"))
		} else {
			b.WriteRune(r)
		}
	}
	return b.String()
}

// inverseSubstBelow is inverseSubst restricted to substitute runes below limit.
func inverseSubstBelow(t *rapid.T, d string, k int, limit rune) string {
	rs := []rune(d)
	for ; k > 0 && len(rs) > 0; k-- {
		pos := rapid.IntRange(0, len(rs)-1).Draw(t, "pos")
		for l := min(invMaxLen, len(rs)-pos); l >= 1; l-- {
			var low []rune
			for _, c := range invTable[string(rs[pos:pos+l])] {
				if c < limit {
					low = append(low, c)
				}
			}
			if len(low) > 0 {
				c := low[rapid.IntRange(0, len(low)-1).Draw(t, "cand")]
				rs = append(rs[:pos], append([]rune{c}, rs[pos+l:]...)...)
				break
			}
		}
	}
	return string(rs)
}

// inverseSubst replaces up to k substrings of the NFKD string d by single runes
// that decompose to them.
func inverseSubst(t *rapid.T, d string, k int) string {
	rs := []rune(d)
	if len(rs) == 0 {
		return d
	}
	for ; k > 0; k-- {
		pos := rapid.IntRange(0, len(rs)-1).Draw(t, "pos")
		if rapid.Bool().Draw(t, "multi-rune-site") {
			// prefer a place where two or more runes are the decomposition of one (base + mark,
			// space + mark, jamo sequences, ligatures): such places are rare in a sentence
			var sites []int
			for p := 0; p < len(rs); p++ {
				for l := min(invMaxLen, len(rs)-p); l >= 2; l-- {
					if len(invTable[string(rs[p:p+l])]) > 0 {
						sites = append(sites, p)
						break
					}
				}
			}
			if len(sites) > 0 {
				pos = sites[rapid.IntRange(0, len(sites)-1).Draw(t, "site")]
			}
		}
		// longest match first
		done := false
		for l := min(invMaxLen, len(rs)-pos); l >= 1 && !done; l-- {
			if cands := invTable[string(rs[pos:pos+l])]; len(cands) > 0 {
				c := cands[rapid.IntRange(0, len(cands)-1).Draw(t, "cand")]
				rs = append(rs[:pos], append([]rune{c}, rs[pos+l:]...)...)
				done = true
			}
		}
		if len(rs) == 0 {
			break
		}
	}
	return string(rs)
}

var ustringPieces = []string{
	"\u00c5", "A\u030a", "\u212b", "\ufb01", "\ufb03", "\u3349", "\u334d", "\u3336",
	"\uff21\uff22\uff43", "\u304c", "\u304b\u3099", "\u3071", "\u30f4\u30a1", "\uac00", "\u1100\u1161", "\ud55c\uae00",
	"a\u0323\u0307", "a\u0307\u0323", "\u1e69", "s\u0307\u0323", "q\u0307\u0323\u0316\u0301", "\u0344", "\u0958", "\u2126",
	"\u00aa", "\u00b5", "\u2460", "\u00bd", "\u1f82", "\u0f73", "\u0f75", "\u0f81",
	"\ufdfa", "\u2075", "\u2122", "\u210c", "\u5341\u4eba\u5341\u8272", "\u309e", "\u309b", "\u309c",
	"\uff9e", "\uff76\uff9e", "\U0001d400", "\U0002f800", "\uf900", "\u2f00", "\u0130", "\u1e9b\u0323",
	"\u0000", "\ufeff", "\u200d", "\u00ad", "\ufffd", "\U0010ffff", "mnemonic", "TREZOR",
	"\u03a9", "\ufb2f", "\u0e01\u0e33", "\u0eb3", "\u3000", "\u00a0", "\u1e0b\u0323", "\u0fb9",
	"\u0340", "\u0341", "\u0343", "\u0374", "\u037e", "\u0387", "\u1fef", "\u2000",
	"\u2001", "\u2329", "\ufe10", "\ufe30", "\u3099", "\u309a", "\u0345", "\u0315",
	"\u031b\u0321",
}

// UString draws a valid-UTF-8 string weighted towards what matters for
// normalisation. maxPieces bounds the number of concatenated pieces.
func UString(maxPieces int) *rapid.Generator[string] {
	return rapid.Custom(func(t *rapid.T) string {
		buildInv()
		n := rapid.IntRange(0, maxPieces).Draw(t, "pieces")
		var b strings.Builder
		for i := 0; i < n; i++ {
			switch rapid.IntRange(0, 12).Draw(t, "kind") {
			case 0:
				b.WriteString(rapid.StringOfN(rapid.RuneFrom(nil, unicode.Latin, unicode.Digit, unicode.Punct), 0, 6, -1).Draw(t, "ascii"))
			case 1:
				b.WriteString(rapid.SampledFrom(ustringPieces).Draw(t, "piece"))
			case 2:
				b.WriteRune(decompRunes[rapid.IntRange(0, len(decompRunes)-1).Draw(t, "decomp")])
			case 3:
				b.WriteRune(markRunes[rapid.IntRange(0, len(markRunes)-1).Draw(t, "mark")])
			case 4: // base + several marks in arbitrary order
				b.WriteRune(rapid.RuneFrom([]rune("aeiousAEOUnc\u3046\u304b\u30cf")).Draw(t, "base"))
				for k := rapid.IntRange(1, 4).Draw(t, "nmarks"); k > 0; k-- {
					b.WriteRune(rapid.RuneFrom([]rune{0x0300, 0x0301, 0x0302, 0x0303, 0x0307, 0x0308, 0x030a, 0x030c, 0x0316, 0x0323, 0x0327, 0x0328, 0x031b, 0x0345, 0x3099, 0x309a, 0x05b8, 0x05bc, 0x0e38}).Draw(t, "m"))
				}
			case 5: // Hangul syllable or jamo
				if rapid.Bool().Draw(t, "syll") {
					b.WriteRune(rune(0xac00 + rapid.IntRange(0, 11171).Draw(t, "h")))
				} else {
					b.WriteRune(rune(rapid.SampledFrom([]int{0x1100, 0x1161, 0x11a8, 0x3131, 0xffa1, 0x1112, 0x11c2}).Draw(t, "j")))
				}
			case 6: // a list word, possibly in another form
				l := Lang().Draw(t, "wl")
				w := ref.Golden(l)[rapid.IntRange(0, 2047).Draw(t, "wi")]
				b.WriteString(Forms[rapid.SampledFrom(FormNames).Draw(t, "wf")].String(w))
			case 7:
				if rapid.Bool().Draw(t, "plain") {
					b.WriteByte(' ')
				} else {
					b.WriteRune(rapid.SampledFrom(NFKDSpaces).Draw(t, "space"))
				}
			case 8:
				b.WriteRune(rapid.Rune().Draw(t, "rune"))
			case 9: // repetition: push past the 128-byte HMAC block
				piece := rapid.SampledFrom(ustringPieces).Draw(t, "rep")
				b.WriteString(strings.Repeat(piece, rapid.IntRange(2, 80).Draw(t, "times")))
			case 10:
				b.WriteString(rapid.SampledFrom([]string{"\t", "\n", "\r\n", "\u000b", "\u0085", "\u1680", "\u180e", "\u200b", "\u2028", "\u2029"}).Draw(t, "ws"))
			case 12: // Latin-1 characters with compatibility decompositions (below U+00C0)
				b.WriteRune(rapid.SampledFrom([]rune{0xa0, 0xa8, 0xaa, 0xaf, 0xb2, 0xb3, 0xb4, 0xb5, 0xb8, 0xb9, 0xba, 0xbc, 0xbd, 0xbe}).Draw(t, "latin1"))
			case 11:
				b.WriteString(FullWidth(rapid.StringOfN(rapid.RuneFrom([]rune("abcxyzABC019 ")), 1, 5, -1).Draw(t, "fw")))
			}
		}
		s := b.String()
		if !utf8.ValidString(s) {
			s = strings.ToValidUTF8(s, "\ufffd")
		}
		return s
	})
}

// LowString draws ASCII text sprinkled with decomposable runes that all lie below a drawn
// threshold (U+00C0, U+0100, U+0300, ...), so the string's highest rune sits just under it.
func LowString() *rapid.Generator[string] {
	return rapid.Custom(func(t *rapid.T) string {
		buildInv()
		limit := rapid.SampledFrom([]rune{0xc0, 0x100, 0x180, 0x300, 0x2000}).Draw(t, "limit")
		var cands []rune
		for _, r := range decompRunes {
			if r < limit {
				cands = append(cands, r)
			}
		}
		var b strings.Builder
		for i := rapid.IntRange(1, 6).Draw(t, "parts"); i > 0; i-- {
			b.WriteString(rapid.StringOfN(rapid.RuneFrom([]rune("abcdefghijklmnopqrstuvwxyz H2O10F")), 0, 8, -1).Draw(t, "ascii"))
			b.WriteRune(cands[rapid.IntRange(0, len(cands)-1).Draw(t, "low")])
		}
		return b.String()
	})
}

// PadToNFKDLen extends s with ASCII so that its NFKD form has exactly n bytes (if it is shorter).
func PadToNFKDLen(s string, n int) string {
	d := len(norm.NFKD.String(s))
	if d >= n {
		return s
	}
	return s + strings.Repeat("x", n-d)
}

var (
	highExpOnce  sync.Once
	highExpRunes []rune
)

// HighExpansionString draws a string made mostly of the runes whose NFKD form is longest
// relative to their UTF-8 length (U+FDFA, U+FDFB, squared katakana words, U+2057, ...): the inputs
// on which a normaliser's output outgrows any "a few times the input" buffer bound.
func HighExpansionString() *rapid.Generator[string] {
	return rapid.Custom(func(t *rapid.T) string {
		buildInv()
		highExpOnce.Do(func() {
			type re struct {
				r     rune
				ratio float64
			}
			var all []re
			for _, r := range decompRunes {
				all = append(all, re{r, float64(len(norm.NFKD.String(string(r)))) / float64(utf8.RuneLen(r))})
			}
			sort.Slice(all, func(i, j int) bool { return all[i].ratio > all[j].ratio })
			for i := 0; i < 64 && i < len(all); i++ {
				highExpRunes = append(highExpRunes, all[i].r)
			}
		})
		var b strings.Builder
		for n := rapid.IntRange(1, 12).Draw(t, "n"); n > 0; n-- {
			b.WriteRune(highExpRunes[rapid.IntRange(0, len(highExpRunes)-1).Draw(t, "hx")])
			if rapid.IntRange(0, 4).Draw(t, "filler") == 0 {
				b.WriteString(rapid.SampledFrom([]string{" ", "a", "\u3000", "x "}).Draw(t, "f"))
			}
		}
		return b.String()
	})
}

// BlockEdgeRunes are code points at the edges of the blocks the lists' scripts live in: the last
// assigned, the first unassigned, the neighbours of the block end.
var BlockEdgeRunes = func() []rune {
	var out []rune
	add := func(lo, hi rune) {
		for r := lo; r <= hi; r++ {
			out = append(out, r)
		}
	}
	add(0xd7a0, 0xd7b2)   // Hangul syllables end at U+D7A3; block ends at U+D7AF
	add(0xabfe, 0xac02)   // Hangul syllables start
	add(0x10fe, 0x1102)   // Hangul jamo start
	add(0x11f8, 0x1202)   // jamo end
	add(0x303e, 0x3043)   // Hiragana start
	add(0x3094, 0x30a2)   // Hiragana end / Katakana start (U+3097, U+3098 unassigned; U+3099.. marks)
	add(0x30fa, 0x3102)   // Katakana end
	add(0x4dfe, 0x4e02)   // CJK unified start
	add(0x9ffc, 0xa002)   // CJK unified end
	add(0xf8fe, 0xf902)   // CJK compatibility ideographs start
	add(0xfa6c, 0xfa72)   // gap inside CJK compatibility ideographs
	add(0xfad8, 0xfb07)   // end of compatibility ideographs, alphabetic presentation forms
	add(0x7e, 0x82)       // ASCII / C1 edge
	add(0xbe, 0xc1)       // Latin-1 compat / letters edge
	add(0xfe, 0x102)      // Latin-1 / Latin Extended-A edge
	add(0x2fe, 0x302)     // combining diacritics start
	add(0x36e, 0x372)     // combining diacritics end
	add(0xfefe, 0xff02)   // BOM, full-width start
	add(0xff5d, 0xff67)   // full-width end / half-width katakana
	add(0xfffc, 0xffff)   // specials / noncharacters
	add(0x1fffe, 0x20002) // plane 1 end / plane 2 start
	add(0x10fffe, 0x10ffff)
	var valid []rune
	for _, r := range out {
		if !(r >= 0xd800 && r <= 0xdfff) {
			valid = append(valid, r)
		}
	}
	return valid
}()

// StartsWithMark reports whether s begins with a combining mark.
func StartsWithMark(s string) bool {
	r, _ := utf8.DecodeRuneInString(s)
	return s != "" && unicode.Is(unicode.M, r)
}

// BString draws arbitrary bytes, including invalid UTF-8.
func BString(maxLen int) *rapid.Generator[string] {
	return rapid.Custom(func(t *rapid.T) string {
		switch rapid.IntRange(0, 4).Draw(t, "bkind") {
		case 0:
			return string(rapid.SliceOfN(rapid.Byte(), 0, maxLen).Draw(t, "raw"))
		case 1: // valid text with hostile bytes injected
			s := []byte(UString(6).Draw(t, "base"))
			for k := rapid.IntRange(1, 4).Draw(t, "inj"); k > 0; k-- {
				bad := rapid.SampledFrom([]string{"\xff", "\xc0\x80", "\xe3\x81", "\xed\xa0\x80", "\xf4\x90\x80\x80", "\x80", "\xf8\x88\x80\x80\x80", "\x00", "\xe2\x80"}).Draw(t, "bad")
				pos := rapid.IntRange(0, len(s)).Draw(t, "at")
				s = append(s[:pos], append([]byte(bad), s[pos:]...)...)
			}
			return string(s)
		case 2:
			return ""
		case 3:
			return strings.Repeat(rapid.SampledFrom([]string{" ", "\u3000", "a ", "\u0301", "\xff", "abandon ", "\u3099"}).Draw(t, "unit"), rapid.IntRange(0, max(1, maxLen/4)).Draw(t, "times"))
		default:
			return UString(8).Draw(t, "u")
		}
	})
}
