package gen

import (
	"fmt"
	"strings"
	"sync"
	"unicode"

	"pgregory.net/rapid"

	"verif/harness/ref"
)

// Mutated is a sentence derived from a valid one by a defect program.
type Mutated struct {
	Lang ref.Lang
	Text string
	// Class names the defect (for the histogram); Desc says what was done.
	Class string
	Desc  string
}

// DefectClasses lists the classes Defect can produce.
var DefectClasses = []string{
	"substitute", "transpose", "count-delete", "count-insert", "count-any", "foreign-word", "case",
	"affix", "junk-token", "separator", "checksum-only", "last-word", "none", "lead-zero-wrongsum",
	"empty-token", "drop-word-keep-separator", "strip-marks", "add-mark", "invisible-affix", "count-wrap", "hash-lookalike", "letter-affix", "giant-token", "numbered", "detached-mark",
}

func join(l ref.Lang, idx []int, sep string) string {
	return strings.Join(ref.Words(l, idx), sep)
}

// Defect draws a valid sentence in language l and damages it.
func Defect() *rapid.Generator[Mutated] {
	return rapid.Custom(func(t *rapid.T) Mutated {
		l := Lang().Draw(t, "lang")
		idx := ValidIndices().Draw(t, "valid")
		n := len(idx)
		words := ref.Words(l, idx)
		class := rapid.SampledFrom(DefectClasses).Draw(t, "class")
		m := Mutated{Lang: l, Class: class}
		switch class {
		case "none":
			m.Text, m.Desc = strings.Join(words, " "), "unchanged valid sentence"
		case "substitute":
			p := rapid.IntRange(0, n-1).Draw(t, "pos")
			j := Index().Draw(t, "idx")
			words[p] = ref.Golden(l)[j]
			m.Text, m.Desc = strings.Join(words, " "), fmt.Sprintf("word %d replaced by index %d", p, j)
		case "transpose":
			p := rapid.IntRange(0, n-1).Draw(t, "p")
			q := rapid.IntRange(0, n-1).Draw(t, "q")
			words[p], words[q] = words[q], words[p]
			m.Text, m.Desc = strings.Join(words, " "), fmt.Sprintf("words %d and %d swapped", p, q)
		case "count-delete":
			k := rapid.IntRange(1, n).Draw(t, "k")
			m.Text, m.Desc = strings.Join(words[:n-k], " "), fmt.Sprintf("last %d words removed", k)
		case "count-insert":
			k := rapid.IntRange(1, 16).Draw(t, "k")
			for i := 0; i < k; i++ {
				words = append(words, ref.Golden(l)[Index().Draw(t, "extra")])
			}
			m.Text, m.Desc = strings.Join(words, " "), fmt.Sprintf("%d words appended", k)
		case "count-any":
			k := rapid.IntRange(0, 40).Draw(t, "k")
			ws := make([]string, k)
			for i := range ws {
				ws[i] = ref.Golden(l)[Index().Draw(t, "w")]
			}
			m.Text, m.Desc = strings.Join(ws, " "), fmt.Sprintf("%d arbitrary list words", k)
		case "foreign-word":
			p := rapid.IntRange(0, n-1).Draw(t, "pos")
			o := Lang().Draw(t, "other")
			j := rapid.IntRange(0, 2047).Draw(t, "idx")
			if rapid.Bool().Draw(t, "same-index") {
				j = idx[p]
			}
			words[p] = ref.Golden(o)[j]
			m.Text, m.Desc = strings.Join(words, " "), fmt.Sprintf("word %d replaced by %s word %d", p, o, j)
		case "case":
			p := rapid.IntRange(0, n-1).Draw(t, "pos")
			switch rapid.IntRange(0, 2).Draw(t, "how") {
			case 0:
				words[p] = strings.ToUpper(words[p])
			case 1:
				words[p] = strings.ToTitle(words[p][:1]) + words[p][1:]
			default:
				for i := range words {
					words[i] = strings.ToUpper(words[i])
				}
			}
			m.Text, m.Desc = strings.Join(words, " "), fmt.Sprintf("case damage at word %d", p)
		case "affix":
			p := rapid.IntRange(0, n-1).Draw(t, "pos")
			w := []rune(words[p])
			switch rapid.IntRange(0, 4).Draw(t, "how") {
			case 0:
				words[p] = string(w[:len(w)-1])
			case 1:
				words[p] = string(w[1:])
			case 2:
				words[p] = string(w) + string(w[len(w)-1])
			case 3:
				words[p] = string(w[:min(4, len(w))])
			default:
				words[p] = string(w) + rapid.SampledFrom([]string{"s", "\u0301", "\u3099", ".", ",", "\u200b", "\u00ad", "\x00"}).Draw(t, "suffix")
			}
			m.Text, m.Desc = strings.Join(words, " "), fmt.Sprintf("prefix/suffix damage at word %d", p)
		case "junk-token":
			p := rapid.IntRange(0, n-1).Draw(t, "pos")
			words[p] = rapid.OneOf(UString(3), BString(12)).Draw(t, "junk")
			m.Text, m.Desc = strings.Join(words, " "), fmt.Sprintf("word %d replaced by an arbitrary string", p)
		case "separator":
			how := rapid.SampledFrom([]string{"double", "leading", "trailing", "tab", "newline", "nbsp", "ideographic", "none", "none-at-all", "comma", "mixed-ws", "zwsp", "crlf-end"}).Draw(t, "how")
			p := rapid.IntRange(0, n-2).Draw(t, "pos")
			s := strings.Join(words, " ")
			switch how {
			case "double":
				s = strings.Join(words[:p+1], " ") + "  " + strings.Join(words[p+1:], " ")
			case "leading":
				s = " " + s
			case "trailing":
				s = s + " "
			case "tab":
				s = strings.Join(words[:p+1], " ") + "\t" + strings.Join(words[p+1:], " ")
			case "newline":
				s = strings.Join(words[:p+1], " ") + "\n" + strings.Join(words[p+1:], " ")
			case "nbsp":
				s = strings.Join(words, "\u00a0")
			case "ideographic":
				s = strings.Join(words, "\u3000")
			case "none":
				s = strings.Join(words[:p+1], " ") + strings.Join(words[p+1:], " ")
			case "none-at-all":
				s = strings.Join(words, "") // written without spaces (as Chinese and Japanese text is)
			case "comma":
				s = strings.Join(words, ", ")
			case "mixed-ws":
				s = strings.Join(words, " \t")
			case "zwsp":
				s = strings.Join(words[:p+1], " ") + "\u200b" + strings.Join(words[p+1:], " ")
			case "crlf-end":
				s = s + "\r\n"
			}
			m.Text, m.Desc = s, "separator damage: "+how
		case "checksum-only", "last-word":
			// same count, all list words, different last word
			j := rapid.IntRange(0, 2047).Draw(t, "last")
			if class == "checksum-only" {
				cs := uint(n / 3)
				j = idx[n-1]&^(1<<cs-1) | rapid.IntRange(0, 1<<cs-1).Draw(t, "cs")
			}
			idx2 := append(append([]int(nil), idx[:n-1]...), j)
			m.Text, m.Desc = join(l, idx2, " "), fmt.Sprintf("last word replaced by index %d", j)
		case "empty-token":
			// a valid sentence in which word p has index 0 loses that word but keeps both separators:
			// a validator that lets an empty token stand for index 0 accepts it
			p := rapid.IntRange(0, n-2).Draw(t, "pos")
			idx2 := append([]int(nil), idx[:n-1]...)
			idx2[p] = 0
			sol := ref.SolveLast(idx2)
			idx2 = append(idx2, sol[rapid.IntRange(0, len(sol)-1).Draw(t, "last")])
			ws := ref.Words(l, idx2)
			ws[p] = ""
			sep := rapid.SampledFrom([]string{" ", "\u3000"}).Draw(t, "sep")
			m.Text, m.Desc = strings.Join(ws, sep), fmt.Sprintf("word %d (index 0) removed, separators kept", p)
		case "drop-word-keep-separator":
			p := rapid.IntRange(0, n-1).Draw(t, "pos")
			words[p] = ""
			m.Text, m.Desc = strings.Join(words, " "), fmt.Sprintf("word %d removed, separators kept", p)
		case "strip-marks":
			// accents / voicing marks dropped from one or all words ("abaco" for "a\u0301baco")
			strip := func(w string) string {
				var b strings.Builder
				for _, r := range ref.NFKD(w) {
					if !unicode.Is(unicode.M, r) {
						b.WriteRune(r)
					}
				}
				return b.String()
			}
			if rapid.Bool().Draw(t, "all") {
				for i := range words {
					words[i] = strip(words[i])
				}
				m.Desc = "combining marks stripped from every word"
			} else {
				// prefer a word that has marks
				p := rapid.IntRange(0, n-1).Draw(t, "pos")
				for k := 0; k < n; k++ {
					if q := (p + k) % n; strip(words[q]) != words[q] {
						p = q
						break
					}
				}
				words[p] = strip(words[p])
				m.Desc = fmt.Sprintf("combining marks stripped from word %d", p)
			}
			m.Text = strings.Join(words, " ")
		case "add-mark":
			p := rapid.IntRange(0, n-1).Draw(t, "pos")
			r := []rune(words[p])
			at := rapid.IntRange(1, len(r)).Draw(t, "at")
			mark := rapid.SampledFrom([]rune{0x0301, 0x0303, 0x0308, 0x3099, 0x309a, 0x0327}).Draw(t, "mark")
			words[p] = string(r[:at]) + string(mark) + string(r[at:])
			m.Text, m.Desc = strings.Join(words, " "), fmt.Sprintf("combining mark %U added to word %d", mark, p)
		case "invisible-affix":
			// an invisible / format character glued to a word (BOM at the very start, zero-width
			// joiners, soft hyphen, word joiner, variation selector)
			inv := rapid.SampledFrom([]string{"\ufeff", "\u200b", "\u200c", "\u200d", "\u00ad", "\u2060", "\u180e", "\ufe0f", "\u034f", "\u061c", "\u200e"}).Draw(t, "inv")
			p := rapid.SampledFrom([]int{0, 0, 0, n - 1, rapid.IntRange(0, n-1).Draw(t, "pos")}).Draw(t, "which")
			if rapid.IntRange(0, 3).Draw(t, "suffix") == 0 {
				words[p] += inv
			} else {
				words[p] = inv + words[p]
			}
			m.Text, m.Desc = strings.Join(words, " "), fmt.Sprintf("invisible %+q glued to word %d", inv, p)
		case "count-wrap":
			// a count that equals an acceptable one modulo 2^8 or 2^16, built on a valid sentence
			base := rapid.SampledFrom([]int{256, 256, 256, 512, 512, 256, 256, 512, 256, 65536}).Draw(t, "wrap")
			extra := make([]string, base)
			filler := ref.Golden(l)[idx[0]]
			for i := range extra {
				extra[i] = filler
			}
			m.Text, m.Desc = strings.Join(append(extra, words...), " "), fmt.Sprintf("%d extra words in front of a valid %d-word sentence (%d words)", base, n, base+n)
		case "hash-lookalike":
			// a token that is not a list word but collides with one under a common 32-bit hash
			// (same byte length): a lookup that compares hashes instead of words accepts it
			la := HaveLookalikes()
			if len(la) == 0 {
				m.Class = "junk-token"
				words[0] = "notaword#"
				m.Text, m.Desc = strings.Join(words, " "), "no lookalikes available: plain unknown token"
				break
			}
			x := la[rapid.IntRange(0, len(la)-1).Draw(t, "lookalike")]
			p := rapid.IntRange(0, n-2).Draw(t, "pos")
			idx2 := append([]int(nil), idx[:n-1]...)
			idx2[p] = x.Index
			sol := ref.SolveLast(idx2)
			idx2 = append(idx2, sol[rapid.IntRange(0, len(sol)-1).Draw(t, "last")])
			ws := ref.Words(x.Lang, idx2)
			ws[p] = x.Token
			m.Lang = x.Lang
			m.Text, m.Desc = strings.Join(ws, " "), fmt.Sprintf("word %d replaced by %q, which has the %s hash and length of %s word %d", p, x.Token, x.Hash, x.Lang, x.Index)
		case "letter-affix":
			// one more letter at the end of a word, or its last letter changed ("abandonx", "abandob"):
			// what a lookup that only keys on a prefix or a packed fixed-width key cannot tell apart
			p := rapid.IntRange(0, n-1).Draw(t, "pos")
			letter := string(rune('a' + rapid.IntRange(0, 25).Draw(t, "letter")))
			r := []rune(words[p])
			switch rapid.IntRange(0, 2).Draw(t, "how") {
			case 0:
				words[p] += letter
			case 1:
				words[p] = string(r[:len(r)-1]) + letter
			default:
				words[p] += letter + letter
			}
			m.Text, m.Desc = strings.Join(words, " "), fmt.Sprintf("letter damage at the end of word %d", p)
		case "giant-token":
			// one token with no separator in it whose length sits on a buffer limit (bufio's 4 KiB
			// reader buffer, bufio.Scanner's 64 KiB token limit): behind, in front of, or in place
			// of a word of a valid sentence
			size := rapid.SampledFrom([]int{4095, 4096, 4097, 65535, 65536, 65537, 70000, 131072}).Draw(t, "size")
			unit := rapid.SampledFrom([]string{"x", "x", words[0], "\u00e9", "\uff41"}).Draw(t, "unit")
			tok := strings.Repeat(unit, size/len(unit)+1)[:size]
			tok = strings.ToValidUTF8(tok, "x")
			switch rapid.IntRange(0, 3).Draw(t, "where") {
			case 0, 1:
				m.Text, m.Desc = strings.Join(words, " ")+" "+tok, fmt.Sprintf("a %d-byte token behind a valid sentence", len(tok))
			case 2:
				m.Text, m.Desc = tok+" "+strings.Join(words, " "), fmt.Sprintf("a %d-byte token in front of a valid sentence", len(tok))
			default:
				p := rapid.IntRange(0, n-1).Draw(t, "pos")
				words[p] = tok
				m.Text, m.Desc = strings.Join(words, " "), fmt.Sprintf("word %d replaced by a %d-byte token", p, len(tok))
			}
		case "numbered":
			// a recovery sheet typed with its numbering: "1. w1 2. w2 ...", "1) w1 ...", "1 w1 ...", "1.w1 2.w2"
			style := rapid.SampledFrom([]string{"%d. %s", "%d) %s", "%d: %s", "%d %s", "%d.%s", "#%d %s", "%d.\t%s"}).Draw(t, "style")
			from := rapid.SampledFrom([]int{1, 1, 1, 0}).Draw(t, "first-number")
			parts := make([]string, n)
			for i := range words {
				parts[i] = fmt.Sprintf(style, i+from, words[i])
			}
			sep := rapid.SampledFrom([]string{" ", " ", "\n", "  "}).Draw(t, "sep")
			m.Text, m.Desc = strings.Join(parts, sep), "words numbered like a recovery sheet"
		case "detached-mark":
			// a space in front of a combining mark inside a word (what the spacing clones U+00B4,
			// U+00A8, U+309B ... decompose to): the word is torn in two
			var cand []int
			for i, w := range words {
				for j, r := range w {
					if j > 0 && unicode.Is(unicode.Mn, r) {
						cand = append(cand, i)
						break
					}
				}
			}
			if len(cand) == 0 {
				// no word with a mark in this sentence: put a detached mark behind a word instead
				p := rapid.IntRange(0, n-1).Draw(t, "pos")
				words[p] += " " + rapid.SampledFrom([]string{"\u0301", "\u0308", "\u3099", "\u309a", "\u0327"}).Draw(t, "mark")
				m.Text, m.Desc = strings.Join(words, " "), fmt.Sprintf("a detached combining mark behind word %d", p)
				break
			}
			p := cand[rapid.IntRange(0, len(cand)-1).Draw(t, "which")]
			var b strings.Builder
			done := false
			for j, r := range words[p] {
				if !done && j > 0 && unicode.Is(unicode.Mn, r) {
					b.WriteByte(' ')
					done = true
				}
				b.WriteRune(r)
			}
			words[p] = b.String()
			m.Text, m.Desc = strings.Join(words, " "), fmt.Sprintf("a space in front of the combining mark of word %d", p)
		case "lead-zero-wrongsum":
			// sentences whose entropy starts with zero bytes and whose checksum is the one of
			// the entropy with its leading zero bytes dropped (what a big-integer
			// implementation recomputes when it forgets to pad)
			k := rapid.IntRange(1, 3).Draw(t, "zero-bytes")
			e, _ := ref.Unpack(idx)
			for i := 0; i < k; i++ {
				e[i] = 0
			}
			if e[k] == 0 {
				e[k] = 0x5b
			}
			full := ref.Indices(e)
			cs := uint(n / 3)
			wrong := ref.ChecksumOfRaw(e[k:], int(cs))
			full[n-1] = full[n-1]&^(1<<cs-1) | wrong
			m.Text, m.Desc = join(l, full, " "), fmt.Sprintf("entropy %x with the checksum of its last %d bytes only", e, len(e)-k)
		}
		return m
	})
}

// HasNFKDSpace reports whether the NFKD form of s contains white space.
func HasNFKDSpace(s string) bool {
	for _, r := range ref.NFKD(s) {
		if unicode.IsSpace(r) {
			return true
		}
	}
	return false
}

var (
	sharedMu    sync.Mutex
	sharedCache = map[[2]ref.Lang][]int{}
)

// SharedIndices returns the indices (in a's list) of the words that also occur in b's list.
func SharedIndices(a, b ref.Lang) []int {
	sharedMu.Lock()
	defer sharedMu.Unlock()
	k := [2]ref.Lang{a, b}
	if v, ok := sharedCache[k]; ok {
		return v
	}
	var out []int
	for i, w := range ref.Golden(a) {
		if _, ok := ref.WordIndex(b, w); ok {
			out = append(out, i)
		}
	}
	sharedCache[k] = out
	return out
}

// SharedWordSentence draws a sentence that is valid in language a and consists only of words
// that also belong to language b's list (English/French share 100 words at different indices, the
// two Chinese lists 1275): under b every token is known, so only the checksum (or nothing) is
// wrong. ok is false when the two lists share too few words.
func SharedWordSentence(a, b ref.Lang) *rapid.Generator[[]int] {
	return rapid.Custom(func(t *rapid.T) []int {
		shared := SharedIndices(a, b)
		if len(shared) < 24 {
			return nil
		}
		isShared := map[int]bool{}
		for _, i := range shared {
			isShared[i] = true
		}
		n := rapid.SampledFrom([]int{12, 12, 15, 18}).Draw(t, "n")
		for attempt := 0; attempt < 60; attempt++ {
			prefix := make([]int, n-1)
			for i := range prefix {
				prefix[i] = shared[rapid.IntRange(0, len(shared)-1).Draw(t, "w")]
			}
			for _, last := range ref.SolveLast(prefix) {
				if isShared[last] {
					return append(prefix, last)
				}
			}
		}
		return nil
	})
}

// SharedPairs lists the ordered language pairs whose lists share at least 24 words.
func SharedPairs() [][2]ref.Lang {
	var out [][2]ref.Lang
	for a := ref.Lang(0); a < ref.NumLangs; a++ {
		for b := ref.Lang(0); b < ref.NumLangs; b++ {
			if a != b && len(SharedIndices(a, b)) >= 24 {
				out = append(out, [2]ref.Lang{a, b})
			}
		}
	}
	return out
}
