package gen

import (
	"testing"
	"time"
)

func TestLookalikes(t *testing.T) {
	t0 := time.Now()
	l := Lookalikes()
	t.Logf("%d lookalikes in %v", len(l), time.Since(t0))
	per := map[string]int{}
	for _, x := range l {
		per[x.Hash]++
	}
	t.Logf("%v e.g. %+v", per, l[0])
}
