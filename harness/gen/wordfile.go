package gen

import (
	"strings"
	"unicode"

	"pgregory.net/rapid"

	"verif/harness/ref"
)

// WordFile is an upstream list file: LF-separated lines, blank lines allowed.
type WordFile struct {
	Lines        []string `json:"lines"` // "" is a blank line
	FinalNewline bool     `json:"final_newline"`
}

// Content renders the file.
func (w WordFile) Content() string {
	var b strings.Builder
	for i, l := range w.Lines {
		if i > 0 {
			b.WriteByte('\n')
		}
		b.WriteString(l)
	}
	if w.FinalNewline {
		b.WriteByte('\n')
	}
	return b.String()
}

// Words returns the non-empty lines.
func (w WordFile) Words() []string {
	out := []string{}
	for _, l := range w.Lines {
		if l != "" {
			out = append(out, l)
		}
	}
	return out
}

var (
	lmRunes   []rune
	latinBase = []rune("abcdefghijklmnopqrstuvwxyzABCDEFGHIJKLMNOPQRSTUVWXYZ\u00e9\u00f1\u00fc\u010d\u0159\u017e\u00e7\u00e3\u00f5\u00df\u0131")
	latinMark = []rune{0x0300, 0x0301, 0x0302, 0x0303, 0x0308, 0x030a, 0x030c, 0x0327, 0x0328, 0x0323}
	kanaMark  = []rune{0x3099, 0x309a}
)

// LetterMarkRunes returns every rune of Unicode categories L and M (do not modify).
func LetterMarkRunes() []rune {
	buildInv()
	if lmRunes == nil {
		for r := rune(0); r <= unicode.MaxRune; r++ {
			if unicode.Is(unicode.L, r) || unicode.Is(unicode.M, r) {
				lmRunes = append(lmRunes, r)
			}
		}
	}
	return lmRunes
}

// Word draws a word of 1..12 runes made of letters and combining marks.
func Word() *rapid.Generator[string] {
	return rapid.Custom(func(t *rapid.T) string {
		lm := LetterMarkRunes()
		n := rapid.IntRange(1, 12).Draw(t, "len")
		script := rapid.IntRange(0, 6).Draw(t, "script")
		rs := make([]rune, 0, n)
		for i := 0; i < n; i++ {
			switch script {
			case 0: // Latin with combining diacritics
				if i > 0 && rapid.IntRange(0, 3).Draw(t, "mark") == 0 {
					rs = append(rs, rapid.SampledFrom(latinMark).Draw(t, "m"))
				} else {
					rs = append(rs, rapid.SampledFrom(latinBase).Draw(t, "b"))
				}
			case 1: // Han
				rs = append(rs, rune(0x4e00+rapid.IntRange(0, 0x51ff).Draw(t, "han")))
			case 2: // kana with voicing marks
				if i > 0 && rapid.IntRange(0, 3).Draw(t, "mark") == 0 {
					rs = append(rs, rapid.SampledFrom(kanaMark).Draw(t, "m"))
				} else {
					rs = append(rs, rune(rapid.SampledFrom([]int{0x3041, 0x30a1}).Draw(t, "blk")+rapid.IntRange(0, 85).Draw(t, "kana")))
				}
			case 3: // Hangul jamo and syllables
				if rapid.Bool().Draw(t, "syll") {
					rs = append(rs, rune(0xac00+rapid.IntRange(0, 11171).Draw(t, "h")))
				} else {
					rs = append(rs, rune(rapid.SampledFrom([]int{0x1100, 0x1161, 0x11a8}).Draw(t, "blk")+rapid.IntRange(0, 17).Draw(t, "j")))
				}
			case 4: // a golden word (what the tool is really run on)
				l := ref.Lang(rapid.IntRange(0, int(ref.NumLangs)-1).Draw(t, "gl"))
				return ref.Golden(l)[rapid.IntRange(0, 2047).Draw(t, "gi")]
			default: // anything in L or M
				rs = append(rs, lm[rapid.IntRange(0, len(lm)-1).Draw(t, "lm")])
			}
		}
		return string(rs)
	})
}

// MagicPrefixes: letter-only signatures of binary formats from content-sniffing tables.
var MagicPrefixes = []string{"BM", "OTTO", "wOFF", "wOFf", "ttcf", "MThd", "OggS", "RIFFabcdWAVE", "RIFFabcdWEBPVP", "RIFFabcdAVI", "FORMabcdAIFF", "GIF", "PK", "Rar", "ID", "fLaC", "FWS", "CWS", "MZ", "II", "MM"}

// WordFileGen draws an upstream file.
func WordFileGen() *rapid.Generator[WordFile] {
	return rapid.Custom(func(t *rapid.T) WordFile {
		var n int
		switch rapid.IntRange(0, 9).Draw(t, "size-class") {
		case 0:
			n = 0
		case 1:
			n = 2048
		case 2:
			n = rapid.IntRange(100, 3000).Draw(t, "n")
		default:
			n = rapid.IntRange(1, 40).Draw(t, "n")
		}
		var lines []string
		blank := func(where string, p int) {
			if rapid.IntRange(0, p).Draw(t, where) == 0 {
				for k := rapid.IntRange(1, 3).Draw(t, where+"-run"); k > 0; k-- {
					lines = append(lines, "")
				}
			}
		}
		blank("blank-start", 4)
		if n > 40 {
			// long files: one drawn word pattern, cheap to generate
			base := rapid.SliceOfN(Word(), 8, 8).Draw(t, "base")
			for i := 0; i < n; i++ {
				lines = append(lines, base[i%8]+string(rune('a'+i%26))+string(rune(0x4e00+i)))
				if i%97 == 50 {
					blank("blank-mid", 2)
				}
			}
		} else {
			for i := 0; i < n; i++ {
				lines = append(lines, Word().Draw(t, "word"))
				blank("blank-mid", 9)
			}
		}
		blank("blank-end", 4)
		wf := WordFile{Lines: lines, FinalNewline: rapid.Bool().Draw(t, "final-newline")}
		// the first word begins like a binary file format (what content sniffers key on)
		if n > 0 && rapid.IntRange(0, 7).Draw(t, "magic-first-word") == 0 {
			for i := range wf.Lines {
				if wf.Lines[i] != "" {
					wf.Lines[i] = rapid.SampledFrom(MagicPrefixes).Draw(t, "magic") + wf.Lines[i]
					break
				}
			}
		}
		// total size exactly on, just below or just above a power-of-two limit (64 KiB, 1 MiB), or well
		// above 1 MiB: rare (the files are large)
		target := 0
		switch k := rapid.IntRange(0, 399).Draw(t, "size-target"); {
		case k == 0:
			target = 1 << 20
		case k == 1:
			target = 1<<20 + 200000
		case k <= 5:
			target = 1 << 16
		}
		if target > 0 {
			target += rapid.IntRange(-2, 2).Draw(t, "size-delta")
			filler := Word().Draw(t, "filler")
			if len(filler) > 40 {
				filler = "filler"
			}
			size := len(wf.Content())
			if !wf.FinalNewline && len(wf.Lines) > 0 {
				size++ // the separator in front of the next line
			}
			for i := 0; size < target-200; i++ {
				line := filler + string(rune('a'+i%26)) + string(rune(0x4e00+i%20000))
				wf.Lines = append(wf.Lines, line)
				size += len(line) + 1
			}
			if d := target - len(wf.Content()); d > 1 {
				wf.Lines = append(wf.Lines, strings.Repeat("z", d-1))
			}
		}
		return wf
	})
}
