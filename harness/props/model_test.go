package props

import (
	"bytes"
	"fmt"
	"strings"
	"unicode/utf8"

	bip39 "github.com/islishude/bip39"
	"pgregory.net/rapid"

	"verif/harness/gen"
	"verif/harness/ref"
)

// ---- history-free observation model -------------------------------------------

// normalize removes what legitimately differs between two executions of the
// same op: the random content of a default-source NewMnemonic result.
func normalize(o *op, r obs) obs {
	if o.Kind == "new" && len(o.Source) == 0 && r.Err == "" && r.Panic == "" {
		if rl, ok := refLangOf(bip39.Language(o.Lang)); ok {
			toks := strings.Split(string(r.Str), rl.Sep())
			if idx, known := ref.TokensIndices(rl, toks); known && ref.IndicesValid(idx) && len(toks) == int(o.N) {
				r.Str = text(fmt.Sprintf("<valid %d-word %s mnemonic>", len(toks), rl))
			}
		} else if r.Str != "" {
			r.Str = "<some mnemonic>"
		}
	}
	return r
}

// sharedBytes reports entropy that two consecutive default-source outputs have in common: a
// suffix of the earlier one that is a prefix of the later one (>= 6 bytes), or a common aligned
// 8-byte block. For independent CSPRNG outputs the probability is below 2^-44 per pair.
func sharedBytes(prev, cur []byte) string {
	for k := min(len(prev), len(cur)); k >= 6; k-- {
		if bytes.Equal(prev[len(prev)-k:], cur[:k]) {
			return fmt.Sprintf("the last %d bytes of the earlier entropy are the first %d bytes of this one", k, k)
		}
	}
	for i := 0; i+8 <= len(prev); i += 4 {
		for j := 0; j+8 <= len(cur); j += 4 {
			if bytes.Equal(prev[i:i+8], cur[j:j+8]) {
				return fmt.Sprintf("bytes %d..%d of the earlier entropy equal bytes %d..%d of this one", i, i+7, j, j+7)
			}
		}
	}
	return ""
}

// modelCheck compares one observation with what the properties pin down for
// that call in isolation. It asserts nothing where the text is silent
// (unsupported languages, combined defects, invalid UTF-8 seeds).
func modelCheck(o *op, r obs) error {
	if r.Skipped {
		return nil // the argument does not fit the child's int (32-bit build)
	}
	desc := opString(o)
	if o.Kind == "sleep" {
		return nil
	}
	if r.Panic != "" {
		return failf("model panic "+o.Kind, "%s panicked: %s", desc, r.Panic)
	}
	if r.Unstable != "" {
		return failf("model unstable "+o.Kind, "%s called %d times in a row did not keep returning the same result: %s", desc, o.Repeat, r.Unstable)
	}
	if r.Mutated {
		return failf("model mutated-entropy", "%s modified the caller's entropy slice (or its spare capacity)", desc)
	}
	lang := bip39.Language(o.Lang)
	rl, supported := refLangOf(lang)
	sig := "model " + o.Kind
	switch o.Kind {
	case "string":
		if want := c16Want(o.Lang); string(r.Str) != want {
			return failf(sig, "%s = %q, want %q", desc, string(r.Str), want)
		}
	case "encode":
		if !supported {
			return nil
		}
		if ref.ValidSize(len(o.Entropy)) {
			if want := ref.Encode(o.Entropy, rl); r.Err != "" || string(r.Str) != want {
				return failf(sig, "%s = (%q, %s %q), want (%q, nil)", desc, string(r.Str), r.Err, string(r.ErrMsg), want)
			}
		} else if r.Err != "ErrEntropyLen" || r.Str != "" {
			return failf(sig, "%s = (%q, %s %q), want (\"\", ErrEntropyLen)", desc, string(r.Str), r.Err, string(r.ErrMsg))
		}
	case "new":
		if !supported {
			return nil
		}
		n := int(o.N)
		if int64(n) != o.N || !ref.ValidCount(n) {
			if r.Err != "ErrWordLen" || r.Str != "" {
				return failf(sig, "%s = (%q, %s %q), want (\"\", ErrWordLen)", desc, string(r.Str), r.Err, string(r.ErrMsg))
			}
			return nil
		}
		need := n / 3 * 4
		switch {
		case len(o.Source) == 0:
			if nr := normalize(o, r); r.Err != "" || !strings.HasPrefix(string(nr.Str), "<valid") {
				return failf(sig, "%s = (%q, %s %q), want a valid %d-word mnemonic", desc, string(r.Str), r.Err, string(r.ErrMsg), n)
			}
			seen := map[string]bool{string(r.Str): true}
			prevEnt, _, _ := ref.Decode(rl, string(r.Str))
			for i, m := range r.All {
				if e, _, derr := ref.Decode(rl, m); derr == nil {
					if why := sharedBytes(prevEnt, e); why != "" {
						return failf(sig+" re-issued-bytes", "repetition %d of %s returned %q (entropy %x) right after %x: %s \u2014 randomness handed out twice", i+1, desc, m, e, prevEnt, why)
					}
					prevEnt = e
				}
				toks := strings.Split(m, rl.Sep())
				idx, known := ref.TokensIndices(rl, toks)
				if len(toks) != n || !known || !ref.IndicesValid(idx) {
					return failf(sig+" repeated", "repetition %d of %s returned %q, which is not a valid %d-word %s mnemonic", i+1, desc, m, n, rl)
				}
				if seen[m] {
					return failf(sig+" repeated", "repetition %d of %s returned %q a second time", i+1, desc, m)
				}
				seen[m] = true
			}
		case len(o.Source) >= need:
			if want := ref.Encode(o.Source[:need], rl); r.Err != "" || string(r.Str) != want {
				return failf(sig, "%s = (%q, %s %q), want (%q, nil)", desc, string(r.Str), r.Err, string(r.ErrMsg), want)
			}
		default:
			if r.Err == "" || r.Str != "" {
				return failf(sig, "%s = (%q, %s), want (\"\", error): the source ends after %d of %d bytes", desc, string(r.Str), r.Err, len(o.Source), need)
			}
		}
	case "check", "valid":
		if !supported {
			return nil
		}
		class, unknown := classifyText(rl, string(o.Text))
		if o.Kind == "valid" {
			if class == "valid" && !r.Bool {
				return failf(sig, "%s = false for a valid sentence", desc)
			}
			if class != "valid" && r.Bool && !ref.FieldsValid(rl, string(o.Text)) {
				return failf(sig, "%s = true for an invalid sentence (%s)", desc, class)
			}
			return nil
		}
		switch class {
		case "valid":
			if r.Err != "" {
				return failf(sig, "%s = %s %q for a valid sentence", desc, r.Err, string(r.ErrMsg))
			}
		case "count":
			if r.Err != "ErrWordLen" {
				return failf(sig, "%s = %s %q, want ErrWordLen (only the count is wrong)", desc, r.Err, string(r.ErrMsg))
			}
		case "checksum":
			if r.Err != "ErrChecksumIncorrect" {
				return failf(sig, "%s = %s %q, want ErrChecksumIncorrect (only the checksum is wrong)", desc, r.Err, string(r.ErrMsg))
			}
		case "unknown":
			named := false
			for _, u := range unknown {
				if strings.Contains(string(r.ErrMsg), u) {
					named = true
				}
			}
			if r.Err != "other" || !named {
				return failf(sig, "%s = %s %q, want a non-sentinel error naming one of %q", desc, r.Err, string(r.ErrMsg), unknown)
			}
		default:
			if r.Err == "" && !ref.FieldsValid(rl, string(o.Text)) {
				return failf(sig, "%s = nil for an invalid sentence", desc)
			}
		}
	case "seed":
		if utf8.ValidString(string(o.Text)) && utf8.ValidString(string(o.Pass)) {
			if want := ref.Seed(string(o.Text), string(o.Pass)); !bytes.Equal(r.Bytes, want) {
				return failf(sig, "%s = %x, want %x", desc, []byte(r.Bytes), want)
			}
		}
	}
	return nil
}

// classifyText returns valid | count | checksum | unknown | combined for the
// tokens of the NFKD form split at U+0020, and the unknown tokens.
func classifyText(l ref.Lang, s string) (string, []string) {
	toks := strings.Split(ref.NFKD(s), " ")
	var unknown []string
	for _, tk := range toks {
		if _, ok := ref.WordIndex(l, tk); !ok {
			unknown = append(unknown, tk)
		}
	}
	idx, allKnown := ref.TokensIndices(l, toks)
	switch {
	case allKnown && ref.IndicesValid(idx):
		return "valid", nil
	case allKnown && ref.ValidCount(len(toks)):
		return "checksum", nil
	case allKnown || (len(toks) == 1 && toks[0] == ""):
		return "count", nil
	case ref.ValidCount(len(toks)):
		for _, u := range unknown {
			if u == "" || gen.HasNFKDSpace(u) {
				return "combined", unknown
			}
		}
		return "unknown", unknown
	}
	return "combined", unknown
}

func opString(o *op) string {
	lang := bip39.Language(o.Lang)
	name := fmt.Sprintf("Language(%d)", o.Lang)
	if rl, ok := refLangOf(lang); ok {
		name = rl.Name()
	}
	switch o.Kind {
	case "encode":
		return fmt.Sprintf("NewMnemonicByEntropy(%x, %s)", []byte(o.Entropy), name)
	case "new":
		if len(o.Source) > 0 {
			if o.SourceErr != "" {
				return fmt.Sprintf("NewMnemonic(%d, %s) [source %x, then %s]", o.N, name, []byte(o.Source), o.SourceErr)
			}
			return fmt.Sprintf("NewMnemonic(%d, %s) [source %x]", o.N, name, []byte(o.Source))
		}
		return fmt.Sprintf("NewMnemonic(%d, %s)", o.N, name)
	case "check":
		return fmt.Sprintf("CheckMnemonic(%+q, %s)", clip(string(o.Text)), name)
	case "valid":
		return fmt.Sprintf("IsMnemonicValid(%+q, %s)", clip(string(o.Text)), name)
	case "seed":
		return fmt.Sprintf("MnemonicToSeed(%+q, %+q)", clip(string(o.Text)), clip(string(o.Pass)))
	case "string":
		return fmt.Sprintf("Language(%d).String()", o.Lang)
	case "sleep":
		return fmt.Sprintf("[%d s without any call]", o.N)
	}
	return o.Kind
}

// ---- op generators ---------------------------------------------------------------

type opPool struct {
	texts     []string
	textLang  []int64
	entropies [][]byte
	langs     []int64
}

// drawPool draws the arguments a history re-uses: sentences with their home
// language, entropies of valid and invalid sizes, and the languages in play.
func drawPool(rt *rapid.T, cold bool) *opPool {
	p := &opPool{}
	nl := rapid.IntRange(1, 4).Draw(rt, "nlangs")
	for i := 0; i < nl; i++ {
		p.langs = append(p.langs, int64(implLang[gen.Lang().Draw(rt, "pool-lang")]))
	}
	if rapid.IntRange(0, 3).Draw(rt, "with-unsupported") == 0 {
		p.langs = append(p.langs, rapid.SampledFrom([]int64{-1, 10, 11, 99, -1 << 40}).Draw(rt, "unsupported"))
	}
	nt := rapid.IntRange(2, 6).Draw(rt, "ntexts")
	for i := 0; i < nt; i++ {
		home := p.langs[rapid.IntRange(0, len(p.langs)-1).Draw(rt, "home")]
		rl, ok := refLangOf(bip39.Language(home))
		if !ok {
			rl = gen.Lang().Draw(rt, "home-ref")
		}
		var s string
		switch rapid.IntRange(0, 5).Draw(rt, "text-kind") {
		case 0, 1, 2:
			s = strings.Join(ref.Words(rl, gen.ValidIndices().Draw(rt, "valid")), rl.Sep())
		case 3, 4:
			m := gen.Defect().Draw(rt, "defect")
			s, home = m.Text, int64(implLang[m.Lang])
		default:
			s = gen.UString(6).Draw(rt, "ustr")
		}
		if len(s) > 4096 {
			// plans repeat their arguments across many calls (and goroutines): keep them small;
			// huge inputs are exercised by the single-call checks
			s = strings.Join(ref.Words(rl, gen.ValidIndices().Draw(rt, "valid-instead")), rl.Sep())
			home = int64(implLang[rl])
		}
		p.texts = append(p.texts, s)
		p.textLang = append(p.textLang, home)
	}
	ne := rapid.IntRange(1, 4).Draw(rt, "nent")
	for i := 0; i < ne; i++ {
		if rapid.IntRange(0, 4).Draw(rt, "bad-size") == 0 {
			p.entropies = append(p.entropies, rapid.SliceOfN(rapid.Byte(), 0, 40).Draw(rt, "odd-entropy"))
		} else {
			p.entropies = append(p.entropies, gen.Entropy().Draw(rt, "entropy").Bytes)
		}
	}
	return p
}

// drawOp draws one call over the pool. single = the op runs in a
// single-goroutine history (scripted sources allowed).
func drawOp(rt *rapid.T, p *opPool, single bool, allowSeed bool) op {
	kinds := []string{"check", "check", "check", "valid", "valid", "encode", "encode", "new", "string"}
	if allowSeed {
		kinds = append(kinds, "seed")
	}
	o := op{Kind: rapid.SampledFrom(kinds).Draw(rt, "kind")}
	pickLang := func() int64 { return p.langs[rapid.IntRange(0, len(p.langs)-1).Draw(rt, "lang")] }
	switch o.Kind {
	case "check", "valid":
		i := rapid.IntRange(0, len(p.texts)-1).Draw(rt, "text")
		o.Text = text(p.texts[i])
		o.Lang = p.textLang[i]
		if rapid.Bool().Draw(rt, "under-other-language") {
			o.Lang = pickLang()
		}
	case "encode":
		o.Entropy = append([]byte{}, p.entropies[rapid.IntRange(0, len(p.entropies)-1).Draw(rt, "ent")]...)
		o.ExtraCap = rapid.SampledFrom([]int{0, 0, 1, 8, 64}).Draw(rt, "extra-cap")
		o.Lang = pickLang()
	case "new":
		o.N = int64(rapid.OneOf(gen.Count(), gen.Count(), rapid.IntRange(-3, 40)).Draw(rt, "n"))
		o.Lang = pickLang()
		if single && rapid.Bool().Draw(rt, "scripted-source") {
			e := p.entropies[rapid.IntRange(0, len(p.entropies)-1).Draw(rt, "src")]
			o.Source = append(append([]byte{}, e...), 0x99)
			if rapid.IntRange(0, 2).Draw(rt, "os-error") == 0 {
				o.SourceErr = rapid.SampledFrom(append([]string{"EAGAIN", "timeout", "custom"}, osErrKinds...)).Draw(rt, "source-err")
			}
		} else if ref.ValidCount(int(o.N)) {
			// default source: now and then a run of calls back to back (each output is validated, and
			// consecutive outputs must not share bytes)
			o.Repeat = rapid.SampledFrom([]int{0, 0, 0, 17, 33}).Draw(rt, "repeat-default")
		}
	case "seed":
		i := rapid.IntRange(0, len(p.texts)-1).Draw(rt, "text")
		o.Text = text(p.texts[i])
		o.Pass = text(rapid.SampledFrom([]string{"", "TREZOR", "\u00e9\uff21"}).Draw(rt, "pass"))
		o.Wipe = rapid.Bool().Draw(rt, "wipe")
	case "string":
		o.Lang = rapid.OneOf(rapid.Int64Range(-2, 11), rapid.Just(pickLang())).Draw(rt, "strlang")
	}
	return o
}
