package props

import (
	"fmt"
	"go/token"
	"os"
	"path/filepath"
	"pgregory.net/rapid"
	"strings"
	"testing"
	"unicode"

	"verif/harness/cov"
	"verif/harness/gen"
	"verif/harness/ref"
)

// C08 — the list observable through the API is the canonical list; validation
// maps each word back to the same index.

// observeList extracts the word the API emits for every index of a language:
// 187 crafted 16-byte entropies put every index in a free (non-checksum) position.
// size/shift select a second, independent observation.
func observeList(l ref.Lang, size, shift int) ([]string, error) {
	n := size / 4 * 3
	free := n - 1
	out := make([]string, 2048)
	got := make([]bool, 2048)
	for base := 0; base < 2048; base += free {
		idx := make([]int, n)
		for p := 0; p < free; p++ {
			idx[p] = (base + p + shift) % 2048
		}
		e := gen.FromIndices(size, idx)
		m, err, p := implEncode(e, implLang[l])
		if p != nil || err != nil {
			return nil, failf(fmt.Sprintf("C08 observe lang=%s", l), "NewMnemonicByEntropy(%x, %s): err=%v panic=%v", e, l, err, p)
		}
		toks := strings.Split(m, l.Sep())
		if len(toks) != n {
			return nil, failf(fmt.Sprintf("C08 observe lang=%s tokens", l), "NewMnemonicByEntropy(%x, %s) = %q has %d tokens, want %d", e, l, m, len(toks), n)
		}
		for p := 0; p < free; p++ {
			i := idx[p]
			if got[i] && out[i] != toks[p] {
				return nil, failf(fmt.Sprintf("C08 unstable lang=%s index=%d", l, i), "index %d of %s is emitted as %q and as %q", i, l, out[i], toks[p])
			}
			out[i], got[i] = toks[p], true
		}
	}
	for i, g := range got {
		if !g {
			harnessError("c08: index %d not observed", i)
		}
	}
	return out, nil
}

type listCase struct {
	Lang       string `json:"lang"`
	AfterTypos bool   `json:"after_typos,omitempty"`
}

var c08ListCheck = register("C08", "c08.list", func(c *listCase) error {
	l := mustLang(c.Lang)
	if c.AfterTypos {
		// rejected sentences first: list words with a letter appended / the last rune dropped, in
		// otherwise valid sentences (error paths must not disturb the lists)
		golden := ref.Golden(l)
		for k := 0; k < 24; k++ {
			idx := ref.Indices(tableEntropiesSmall(k + int(l)))
			words := ref.Words(l, idx)
			w := golden[(k*89+2040)%2048]
			r := []rune(w)
			switch k % 3 {
			case 0:
				words[k%12] = w + "s"
			case 1:
				words[k%12] = w + string(r[len(r)-1])
			default:
				if len(r) > 1 {
					words[k%12] = string(r[:len(r)-1])
				}
			}
			implCheck(strings.Join(words, " "), implLang[l])
			implValid(strings.Join(words, l.Sep()), implLang[l])
		}
	}
	obs, err := observeList(l, 16, 0)
	if err != nil {
		return err
	}
	obs2, err := observeList(l, 32, 1000)
	if err != nil {
		return err
	}
	golden := ref.Golden(l)
	seen := map[string]int{}
	for i, w := range obs {
		sig := fmt.Sprintf("C08 list lang=%s index=%d", l, i)
		if w != obs2[i] {
			return failf(sig+" inconsistent", "index %d of %s is %q in 12-word sentences but %q in 24-word sentences", i, l, w, obs2[i])
		}
		if w != golden[i] {
			return failf(sig, "word %d of the %s list is %q (% x), the canonical list has %q (% x)", i, l, w, w, golden[i], golden[i])
		}
		if w == "" {
			return failf(sig+" empty", "word %d of %s is empty", i, l)
		}
		for _, r := range w {
			if unicode.IsSpace(r) {
				return failf(sig+" space", "word %d of %s contains whitespace %U", i, l, r)
			}
		}
		if ref.NFKD(w) != w {
			return failf(sig+" nfkd", "word %d of %s (%q) is changed by NFKD", i, l, w)
		}
		if j, dup := seen[w]; dup {
			return failf(sig+" duplicate", "words %d and %d of %s are both %q", j, i, l, w)
		}
		seen[w] = i
	}
	return nil
})

// c08.back: validation maps the word back to the same index. For index i the
// sentence w_i x (n-1) + x is scanned over all 2048 x; the accepted set must
// equal the reference's solution set for prefix (i, i, ..., i). Two different
// indices give the same set with negligible probability.
type backCase struct {
	Lang  string `json:"lang"`
	Index int    `json:"index"`
	N     int    `json:"n"`
	Pos   int    `json:"pos"` // position of w_i among words of index Other
	Other int    `json:"other"`
	Full  bool   `json:"full"` // scan all 2048 last words; otherwise the solutions and their neighbours
	// Typos: every candidate is checked directly after a rejected attempt with a mistyped word
	// (the word at Pos, or the last word, replaced by a token outside the list)
	Typos bool `json:"typos,omitempty"`
}

var c08BackCheck = register("C08", "c08.back", func(c *backCase) error {
	l := mustLang(c.Lang)
	golden := ref.Golden(l)
	prefix := make([]int, c.N-1)
	for i := range prefix {
		prefix[i] = c.Other
	}
	prefix[c.Pos] = c.Index
	words := ref.Words(l, prefix)
	sol := map[int]bool{}
	for _, s := range ref.SolveLast(prefix) {
		sol[s] = true
	}
	try := func(x int) error {
		m := strings.Join(append(append([]string(nil), words...), golden[x]), " ")
		if c.Typos {
			typo := append(append([]string(nil), words...), golden[x])
			at := []int{c.Pos, c.N - 1, 1}[x%3]
			typo[at] = []string{"zzzz", typo[at] + "q", "\u00e9\u00e9"}[x/3%3]
			implCheck(strings.Join(typo, " "), implLang[l])
		}
		err, p := implCheck(m, implLang[l])
		sig := fmt.Sprintf("C08 back lang=%s index=%d", l, c.Index)
		if p != nil {
			return failf(sig+" panic", "CheckMnemonic(%q, %s) panicked: %v", m, l, p)
		}
		if (err == nil) != sol[x] {
			return failf(sig, "word %q (index %d of %s) at position %d: CheckMnemonic(%q) = %v, but with that word read as index %d the sentence is valid=%v", golden[c.Index], c.Index, l, c.Pos, m, err, c.Index, sol[x])
		}
		return nil
	}
	if c.Full {
		for x := 0; x < 2048; x++ {
			if err := try(x); err != nil {
				return err
			}
		}
		return nil
	}
	all := ref.SolveLast(prefix)
	step := max(1, len(all)/8)
	for k := 0; k < len(all); k += step {
		s := all[k]
		for _, x := range []int{s, (s + 1) % 2048, s ^ 1<<uint(c.N/3-1), (s + 2047) % 2048} {
			if err := try(x); err != nil {
				return err
			}
		}
	}
	return nil
})

const c08Rule = "C08: complete enumeration of 10 languages x 2048 indices. The word the API emits for index i (observed through crafted 12-word and 24-word sentences) must equal the golden list byte for byte, be non-empty, whitespace-free, NFKD-stable and pairwise distinct; and for every (language, index) the sentence containing that word is scanned over candidate last words (quick: the reference's solutions and their neighbours; thorough: all 2048) and the accepted set must be exactly the reference's solution set for that index; for every second index each candidate is checked directly after a rejected attempt with a mistyped word. The source text of internal/wordlist/*.go is parsed and compared with the golden lists as well. Non-trivial: every (language, index) pair; distinct by (kind, language, index)"

func TestC08_List(t *testing.T) {
	cov.Rule(c08Rule)
	for _, l := range allLangs() {
		if !mine(int(l)) {
			continue
		}
		c := &listCase{Lang: l.Name()}
		cov.Eval(2048)
		for i := 0; i < 2048; i++ {
			cov.NonTrivial("list", []byte(c.Lang), []byte{byte(i), byte(i >> 8)})
		}
		cov.Sample("c08.list", c)
		judge(t, "c08.list", c08ListCheck, c)
		c2 := &listCase{Lang: l.Name(), AfterTypos: true}
		cov.Eval(2048)
		cov.Class("list-after-rejected-typos")
		judge(t, "c08.list", c08ListCheck, c2)
	}
	cov.Exhaustive("10 languages x 2048 indices, word emitted by the API vs golden list")
}

func TestC08_Back(t *testing.T) {
	cov.Rule(c08Rule)
	item := 0
	for _, l := range allLangs() {
		for i := 0; i < 2048; i++ {
			item++
			if !mine(item) {
				continue
			}
			n := ref.Counts[i%5]
			c := &backCase{Lang: l.Name(), Index: i, N: n, Pos: (i / 5) % (n - 1), Other: (i*7 + 3) % 2048, Full: thorough(), Typos: i%2 == 1}
			if c.Typos {
				cov.Class("after-rejected-typo")
			}
			if c.Other == i {
				c.Other = (i + 1) % 2048
			}
			cov.Eval(1)
			cov.Class(fmt.Sprintf("n=%d", n))
			cov.NonTrivial("back", []byte(c.Lang), []byte{byte(i), byte(i >> 8)})
			if i == 1000 {
				cov.Sample("c08.back", c)
			}
			judge(t, "c08.back", c08BackCheck, c)
		}
	}
	cov.Exhaustive("10 languages x 2048 indices, validation maps the word back to its index")
}

// c08.source: the source text of internal/wordlist/<file>.go declares the canonical list
// (the property's third observation point).
var c08SourceCheck = register("C08", "c08.source", func(c *listCase) error {
	l := mustLang(c.Lang)
	path := filepath.Join(repoDir(), "internal", "wordlist", l.File()+".go")
	src, err := os.ReadFile(path)
	if err != nil {
		return failf("C08 source-missing lang="+l.Name(), "cannot read %s: %v", path, err)
	}
	_, varName, list, perr := parseList(token.NewFileSet(), l.File()+".go", src)
	if perr != nil {
		return failf("C08 source-unparsable lang="+l.Name(), "internal/wordlist/%s.go: %v", l.File(), perr)
	}
	if varName != l.Name() {
		return failf("C08 source-variable lang="+l.Name(), "internal/wordlist/%s.go declares %s, want %s", l.File(), varName, l.Name())
	}
	if !equalLists(list, ref.Golden(l)) {
		return failf("C08 source-differs lang="+l.Name(), "internal/wordlist/%s.go is not the canonical list: %s", l.File(), firstListDiff(list, ref.Golden(l)))
	}
	return nil
})

func TestC08_Source(t *testing.T) {
	cov.Rule(c08Rule)
	for _, l := range allLangs() {
		c := &listCase{Lang: l.Name()}
		cov.Eval(2048)
		cov.Class("source-text")
		for i := 0; i < 2048; i++ {
			cov.NonTrivial("source", []byte(c.Lang), []byte{byte(i), byte(i >> 8)})
		}
		judge(t, "c08.source", c08SourceCheck, c)
	}
}

// c08.shared: words that two lists share (100 between English and French at different indices,
// 1275 between the two Chinese lists, ...) must map back to the index of the language asked for,
// whatever language the same sentence was validated under just before.
type sharedCase struct {
	A       string `json:"valid_in"`
	B       string `json:"shares_words_with"`
	Indices []int  `json:"indices"` // in A's list; every word also occurs in B's list
}

var c08SharedCheck = register("C08", "c08.shared", func(c *sharedCase) error {
	a, b := mustLang(c.A), mustLang(c.B)
	if !ref.IndicesValid(c.Indices) {
		harnessError("c08.shared: sentence is not valid in %s", a)
	}
	s := strings.Join(ref.Words(a, c.Indices), " ")
	idxB, ok := ref.TokensIndices(b, strings.Split(s, " "))
	if !ok {
		harnessError("c08.shared: a word is not in %s's list", b)
	}
	validB := ref.IndicesValid(idxB)
	for step, l := range []ref.Lang{b, a, b, a} {
		err, p := implCheck(s, implLang[l])
		want := l == a || validB
		sig := fmt.Sprintf("C08 shared lang=%s with=%s", a, b)
		if p != nil {
			return failf(sig+" panic", "CheckMnemonic(%q, %s) panicked: %v", s, l, p)
		}
		if (err == nil) != want {
			return failf(sig, "step %d: CheckMnemonic(%q, %s) = %v; every word is in both the %s and the %s list, read with %s indices the sentence is valid=%v", step, s, l, err, a, b, l, want)
		}
	}
	return nil
})

func TestC08_Shared(t *testing.T) {
	cov.Rule(c08Rule + " || sentences valid in one language built only from words another list shares, validated alternately under both languages")
	k := 0
	rapidCheck(t, func(rt *rapid.T) {
		pairs := gen.SharedPairs()
		pr := pairs[rapid.IntRange(0, len(pairs)-1).Draw(rt, "pair")]
		idx := gen.SharedWordSentence(pr[0], pr[1]).Draw(rt, "sentence")
		if idx == nil {
			rt.Skip("no all-shared sentence found for this draw")
		}
		c := &sharedCase{A: pr[0].Name(), B: pr[1].Name(), Indices: idx}
		cov.Eval(1)
		cov.Class("shared " + c.A + "/" + c.B)
		cov.NonTrivial("c08.shared", []byte(c.A+c.B), []byte(fmt.Sprint(idx)))
		if k++; k%97 == 1 {
			cov.Sample("c08.shared", c)
		}
		judgeH(rt, "c08.shared", c08SharedCheck, c, pr[0])
	})
}

// c08.cold-concurrent: the word -> index direction when the first use of a language comes from
// several goroutines of a freshly started process at once (the lookup tables are built lazily).
var c08ColdConcCheck = register("C08", "c08.cold-concurrent", coldConcCheck("C08"))

func TestC08_ColdConcurrent(t *testing.T) {
	cov.Rule(c08Rule + " || and in freshly started processes whose 8 goroutines validate sentences of one or two languages at once as their very first calls (valid sentences covering different indices, and their last-word neighbours)")
	item := 0
	for round := 0; round < pick(2, 12); round++ {
		for _, l := range allLangs() {
			item++
			if !mine(item) {
				continue
			}
			l2 := l
			if round%2 == 1 {
				l2 = siblingOf(l)
			}
			gs := make([][]op, 8)
			for g := range gs {
				gl := l
				if g%2 == 1 {
					gl = l2
				}
				for i := 0; i < 6; i++ {
					n := ref.Counts[(g+i)%5]
					prefix := make([]int, n-1)
					for j := range prefix {
						prefix[j] = (round*997 + g*251 + i*41 + j*89 + int(l)*13) % 2048
					}
					sol := ref.SolveLast(prefix)
					good := append(append([]int(nil), prefix...), sol[(g+i)%len(sol)])
					bad := append(append([]int(nil), prefix...), (sol[0]+1)%2048)
					gs[g] = append(gs[g], op{Kind: "check", Lang: int64(implLang[gl]), Text: text(strings.Join(ref.Words(gl, good), " "))})
					gs[g] = append(gs[g], op{Kind: "valid", Lang: int64(implLang[gl]), Text: text(strings.Join(ref.Words(gl, bad), " "))})
				}
			}
			c := &concCallCase{Plan: plan{GOMAXPROCS: []int{0, 4, 2, 16}[round%4], Phases: []phase{{Goroutines: gs}}}}
			cov.Eval(8 * 12)
			cov.Class("cold-concurrent-first-use")
			cov.NonTrivial("c08.cold-concurrent", []byte(l.Name()), []byte{byte(round)})
			judge(t, "c08.cold-concurrent", c08ColdConcCheck, c)
		}
	}
}

// c08.idle (thorough tier only): the word -> index direction after the process has made no call
// for 200 s (indexes released by an idle timer must come back).
var c08IdleCheck = register("C08", "c08.idle", coldCheck("C08"))

func TestC08_Idle(t *testing.T) {
	cov.Rule(c08Rule + " || and again after a fresh process has validated in every language, made no call for 200 s, and validates again (thorough tier only)")
	var before, after []op
	for _, l := range allLangs() {
		il := int64(implLang[l])
		for k := 0; k < 3; k++ {
			e := tableEntropiesSmall(int(l)*5 + k + 300)
			before = append(before, op{Kind: "check", Lang: il, Text: text(ref.Encode(e, l))})
			e2 := tableEntropiesSmall(int(l)*5 + k + 900)
			after = append(after, op{Kind: "check", Lang: il, Text: text(ref.Encode(e2, l))}, op{Kind: "encode", Lang: il, Entropy: e2})
		}
	}
	c := &coldCase{History: append(before, op{Kind: "sleep", N: 200}), Probe: after}
	cov.Eval(len(before) + len(after))
	cov.Class("idle-period")
	cov.NonTrivial("c08.idle", []byte("200"))
	judge(t, "c08.idle", c08IdleCheck, c)
}
