package props

import (
	"bytes"
	"crypto/rand"
	"encoding/json"
	"fmt"
	"io"
	"math"
	"strings"
	"sync"
	"testing"
	"time"

	bip39 "github.com/islishude/bip39"
	"pgregory.net/rapid"

	"verif/harness/cov"
	"verif/harness/gen"
	"verif/harness/ref"
)

// C07 — in a build where nothing has swapped it, the randomness source is
// crypto/rand.Reader itself, and NewMnemonic output is a function of that
// source's bytes only.

// suspiciousRun reports a run of >= 6 identical 0x00/0xff bytes anywhere, or >= 5 trailing zero
// bytes, in an entropy drawn from the default source: what a partially filled or padded buffer
// looks like. For genuine CSPRNG output the probability is below 1e-11 per value.
func suspiciousRun(e []byte) string {
	run := 1
	for i := 1; i < len(e); i++ {
		if e[i] == e[i-1] && (e[i] == 0 || e[i] == 0xff) {
			run++
			if run >= 6 {
				return fmt.Sprintf("%d consecutive 0x%02x bytes ending at offset %d", run, e[i], i)
			}
		} else {
			run = 1
		}
	}
	tz := 0
	for i := len(e) - 1; i >= 0 && e[i] == 0; i-- {
		tz++
	}
	if tz >= 5 {
		return fmt.Sprintf("%d trailing zero bytes", tz)
	}
	return ""
}

// defaultOutputCheck decodes a default-source mnemonic and applies the fixed-data detectors.
func defaultOutputCheck(o *op, got obs) error {
	rl, ok := refLangOf(bip39.Language(o.Lang))
	if !ok {
		harnessError("c07: default-output op must use a supported language")
	}
	if err := modelCheck(o, got); err != nil {
		return failf("C07 "+sigOf(err), "%v", err)
	}
	e, sumOK, derr := ref.Decode(rl, string(got.Str))
	if derr != nil || !sumOK {
		return failf("C07 default-output-invalid", "%s returned %q, which does not decode (%v, checksum ok=%v)", opString(o), string(got.Str), derr, sumOK)
	}
	if why := suspiciousRun(e); why != "" {
		return failf("C07 fixed-data-in-default-output", "%s with the unswapped default source returned %q, whose entropy %x has %s: bytes that did not come from the CSPRNG", opString(o), string(got.Str), e, why)
	}
	key := "m:" + string(got.Str)
	if prev, dup := seenDefault[key]; dup {
		return failf("C07 repeated-output", "default-source %s returned %q, which %s returned before", opString(o), string(got.Str), prev)
	}
	seenDefault[key] = opString(o)
	if why := sharedBytes(lastDefaultEntropy, e); why != "" {
		return failf("C07 re-issued-bytes", "%s with the unswapped default source returned %q (entropy %x) right after an output with entropy %x: %s \u2014 bytes of the source used twice", opString(o), string(got.Str), e, lastDefaultEntropy, why)
	}
	lastDefaultEntropy = e
	return nil
}

// lastDefaultEntropy: the entropy of the previous unswapped default-source output of this process
// (consecutive outputs must not share bytes: a pooled source that re-issues its tail shows here)
var lastDefaultEntropy []byte

type sourceCase struct {
	History []op `json:"history"` // non-swapping calls made before the probe
	// Unswapped: default-source NewMnemonic calls made after the history with nothing installed
	Unswapped []op `json:"unswapped,omitempty"`
	// Env: hostile values for environment variables whose names occur as literals in the code under
	// test, and a few generic ones; the default source must not depend on the environment
	Env    []string `json:"env,omitempty"`
	TeeNew []op     `json:"tee_new"` // NewMnemonic calls made through a recording tee around the default source
}

// seenDefault remembers default-source outputs across cases of this process:
// a repeated output means fixed data or a fixed seed.
var seenDefault = map[string]string{}

var c07Check = register("C07", "c07.source", func(c *sourceCase) error {
	p := &plan{Phases: []phase{{Goroutines: [][]op{c.History}}}, Probe: true, TeeNew: c.TeeNew, Unswapped: c.Unswapped, Env: c.Env}
	r := spawnChild(p, false)
	if r.Report == nil {
		if r.Crashed {
			return failf("C07 child-crash", "a fresh process died: %s", describeChildFailure(r))
		}
		harnessError("c07: child failed without a Go crash: %s", describeChildFailure(r))
	}
	rep := r.Report
	if !rep.PrevIsDefault {
		return failf("C07 identity", "after %d non-swapping calls in a fresh process, the randomness source consulted by NewMnemonic is a %s, not crypto/rand.Reader itself", len(c.History), rep.PrevType)
	}
	if len(rep.Tee) != len(c.TeeNew) || len(rep.Unswapped) != len(c.Unswapped) {
		harnessError("c07: malformed child report")
	}
	for i := range c.Unswapped {
		if err := defaultOutputCheck(&c.Unswapped[i], rep.Unswapped[i]); err != nil {
			return err
		}
	}
	for i := range c.TeeNew {
		o := &c.TeeNew[i]
		got := rep.Tee[i]
		rl, ok := refLangOf(bip39.Language(o.Lang))
		if !ok || !ref.ValidCount(int(o.N)) {
			harnessError("c07: tee op must be a valid NewMnemonic call")
		}
		need := int(o.N) / 3 * 4
		if got.Panic != "" || got.Err != "" {
			return failf("C07 tee-failed", "%s with the default source failed: %s %s %s", opString(o), got.Err, string(got.ErrMsg), got.Panic)
		}
		if len(got.TeeBytes) < need {
			return failf("C07 bytes-not-from-source", "%s returned %q but drew only %d bytes from crypto/rand.Reader (needs %d)", opString(o), string(got.Str), len(got.TeeBytes), need)
		}
		if want := ref.Encode(got.TeeBytes[:need], rl); string(got.Str) != want {
			return failf("C07 not-a-function-of-source", "%s drew %x from crypto/rand.Reader and returned\n  %q, but the encoding of those bytes is\n  %q", opString(o), []byte(got.TeeBytes[:need]), string(got.Str), want)
		}
		key := fmt.Sprintf("%x", []byte(got.TeeBytes[:need]))
		if prev, dup := seenDefault[key]; dup {
			return failf("C07 repeated-output", "two default-source NewMnemonic calls (%s and %s) were built from the same %d bytes %s", prev, opString(o), need, key)
		}
		seenDefault[key] = opString(o)
	}
	// default-source calls inside the history: valid, and never repeated
	for i := range c.History {
		o := &c.History[i]
		if o.Kind != "new" || len(o.Source) != 0 {
			continue
		}
		got := rep.Results[0][0][i]
		if err := modelCheck(o, got); err != nil {
			return failf("C07 "+sigOf(err), "%v", err)
		}
		if got.Err == "" && got.Str != "" {
			key := "m:" + string(got.Str)
			if prev, dup := seenDefault[key]; dup {
				return failf("C07 repeated-output", "default-source %s returned %q, which %s returned before", opString(o), string(got.Str), prev)
			}
			seenDefault[key] = opString(o)
		}
	}
	return nil
})

const c07Rule = "C07: (a) fresh child processes each run a rapid-generated history of non-swapping calls (all entry points, all languages, failing calls) and are then probed through the verif hook: the value returned by the first swap must be == crypto/rand.Reader (interface identity); NewMnemonic calls made through a recording tee around that source must equal the reference encoding of the first 4n/3 bytes the tee delivered; no output may repeat across processes or calls. One child in three runs under a hostile environment (every variable name that occurs as a literal in the code under test set to /dev/zero, 1, ...). Before the probe each child also makes 0..40 default-source calls of mixed sizes with nothing installed. (b) in-process: >= 4500 genuinely unswapped outputs of mixed sizes back to back, then every (n, language) through the tee; unswapped outputs are decoded and must show no run of >= 6 equal 0x00/0xff bytes, no >= 5 trailing zero bytes, no repetition, and every entropy bit within 8 sigma of 1/2; every eighth round the bytes just drawn are served again by a replaying source and must give the same sentence. Non-trivial: a child whose history contains >= 1 call before the probe; distinct by (history, tee calls)"

func TestC07_Children(t *testing.T) {
	cov.Rule(c07Rule)
	k := 0
	rapidCheck(t, func(rt *rapid.T) {
		pool := drawPool(rt, false)
		n := rapid.IntRange(0, 12).Draw(rt, "calls")
		hist := make([]op, 0, n)
		seeds := 0
		for i := 0; i < n; i++ {
			o := drawOp(rt, pool, false, seeds < 1)
			if o.Kind == "seed" {
				seeds++
			}
			hist = append(hist, o)
			if rapid.IntRange(0, 5).Draw(rt, "rejected-encode") == 0 {
				// rejected sizes, including multiples of four outside 16..32
				sz := rapid.SampledFrom([]int{0, 4, 8, 12, 36, 40, 64, 15, 33}).Draw(rt, "bad-size")
				hist = append(hist, op{Kind: "encode", Lang: int64(implLang[gen.Lang().Draw(rt, "elang")]), Entropy: make([]byte, sz)})
				hist = append(hist, op{Kind: "new", Lang: int64(implLang[gen.Lang().Draw(rt, "nlang")]), N: int64(rapid.SampledFrom([]int{0, 11, 13, 25, 27, 12}).Draw(rt, "cnt"))})
			}
		}
		nt := rapid.IntRange(1, 4).Draw(rt, "tee-calls")
		tee := make([]op, nt)
		for i := range tee {
			tee[i] = op{Kind: "new", N: int64(gen.Count().Draw(rt, "n")), Lang: int64(implLang[gen.Lang().Draw(rt, "lang")])}
		}
		// a run of default-source calls of mixed sizes (a pooled or chunked source shows at the seams)
		nu := rapid.IntRange(0, 40).Draw(rt, "unswapped-calls")
		uns := make([]op, nu)
		for i := range uns {
			uns[i] = op{Kind: "new", N: int64(gen.Count().Draw(rt, "un")), Lang: int64(implLang[gen.Lang().Draw(rt, "ulang")])}
		}
		c := &sourceCase{History: hist, TeeNew: tee, Unswapped: uns}
		if rapid.IntRange(0, 2).Draw(rt, "hostile-env") == 0 {
			names := append(envNames(), "GODEBUG_VERIF", "RANDOM_DEVICE", "RANDFILE", "BIP39_RANDOM", "BIP39_SEED", "GOMAXPROCS")
			val := rapid.SampledFrom([]string{"/dev/zero", "/dev/null", "1", "0", "true", "/dev/urandom"}).Draw(rt, "env-value")
			for _, n := range names {
				if n == "GOMAXPROCS" {
					c.Env = append(c.Env, "GOMAXPROCS=1")
					continue
				}
				c.Env = append(c.Env, n+"="+val)
			}
			cov.Class("hostile-environment")
		}
		cov.ClassN("unswapped-default-outputs", nu)
		cov.Eval(1)
		cov.ClassN("history-calls", len(hist))
		for i := range hist {
			if hist[i].Kind == "new" {
				cov.Class("history-has-NewMnemonic")
				break
			}
		}
		if len(hist) > 0 {
			b, _ := json.Marshal(c)
			cov.NonTrivial("c07", b)
		} else {
			cov.Class("empty-history")
		}
		if k++; k%17 == 1 && len(hist) < 4 {
			cov.Sample("c07.source", c)
		}
		judge(rt, "c07.source", c07Check, c)
	})
}

type inprocCase struct {
	Rounds int `json:"rounds"`
}

type recTee struct {
	r   io.Reader
	buf bytes.Buffer
}

func (t *recTee) Read(p []byte) (int, error) {
	n, err := t.r.Read(p)
	t.buf.Write(p[:n])
	return n, err
}

var c07InprocCheck = register("C07", "c07.inproc", func(c *inprocCase) error {
	// phase 0: nothing installed - genuinely unswapped output, mixed sizes back to back
	{
		var ones [5][256]int
		var count [5]int
		for round := 0; round < c.Rounds; round++ {
			for li, l := range allLangs() {
				for ni := range ref.Counts {
					n := ref.Counts[(ni+li+round)%5]
					o := &op{Kind: "new", N: int64(n), Lang: int64(implLang[l])}
					got, err, p := implNew(n, implLang[l])
					r := obs{Str: text(got)}
					r.Err, r.ErrMsg = classifyErr2(err)
					if p != nil {
						r.Panic = p.Error()
					}
					if cerr := defaultOutputCheck(o, r); cerr != nil {
						return cerr
					}
					e, _, _ := ref.Decode(l, got)
					si := (len(e) - 16) / 4
					count[si]++
					for b := 0; b < len(e)*8; b++ {
						if e[b/8]>>(7-uint(b%8))&1 == 1 {
							ones[si][b]++
						}
					}
				}
			}
		}
		for si, n := range count {
			limit := 8 * math.Sqrt(float64(n)) / 2
			for b := 0; n >= 64 && b < (16+4*si)*8; b++ {
				if d := math.Abs(float64(ones[si][b]) - float64(n)/2); d > limit {
					return failf("C07 biased-bit", "entropy bit %d of unswapped %d-byte default outputs is 1 in %d of %d samples (more than 8 sigma from 1/2)", b, 16+4*si, ones[si][b], n)
				}
			}
		}
	}
	tee := &recTee{}
	prev := bip39.VerifSwapRandSource(tee)
	defer bip39.VerifSwapRandSource(prev)
	if prev != io.Reader(rand.Reader) {
		return failf("C07 identity", "in a process that has not swapped it, the randomness source is a %T, not crypto/rand.Reader itself", prev)
	}
	tee.r = prev
	var ones [5][256]int
	var count [5]int
	seen := map[string]bool{}
	last, lastLang := "", ref.English
	for round := 0; round < c.Rounds; round++ {
		for _, n := range ref.Counts {
			for _, l := range allLangs() {
				tee.buf.Reset()
				if last != "" {
					implCheck(last, implLang[lastLang]) // a validation between two generations
				}
				got, err, p := implNew(n, implLang[l])
				last, lastLang = got, l
				need := n / 3 * 4
				if p != nil || err != nil {
					return failf("C07 tee-failed", "NewMnemonic(%d, %s) with the default source: err=%v panic=%v", n, l, err, p)
				}
				drawn := tee.buf.Bytes()
				if len(drawn) < need {
					return failf("C07 bytes-not-from-source", "NewMnemonic(%d, %s) returned %q but drew only %d bytes from crypto/rand.Reader", n, l, got, len(drawn))
				}
				if want := ref.Encode(drawn[:need], l); got != want {
					return failf("C07 not-a-function-of-source", "NewMnemonic(%d, %s) drew %x and returned\n  %q, but the encoding of those bytes is\n  %q", n, l, drawn[:need], got, want)
				}
				if seen[got] {
					return failf("C07 repeated-output", "NewMnemonic(%d, %s) returned %q twice", n, l, got)
				}
				seen[got] = true
				// a function of the source's bytes only: the same bytes served again give the same sentence
				if round%8 == 0 {
					replay := append([]byte(nil), drawn...)
					bip39.VerifSwapRandSource(bytes.NewReader(replay))
					again, err2, p2 := implNew(n, implLang[l])
					bip39.VerifSwapRandSource(tee)
					if p2 != nil || err2 != nil || again != got {
						return failf("C07 not-a-function-of-source replay", "NewMnemonic(%d, %s) drew %x from crypto/rand.Reader and returned %q; served the same bytes again by a replaying source it returned (%q, %v, panic=%v)", n, l, drawn[:need], got, again, err2, p2)
					}
				}
				si := (need - 16) / 4
				count[si]++
				for b := 0; b < need*8; b++ {
					if drawn[b/8]>>(7-uint(b%8))&1 == 1 {
						ones[si][b]++
					}
				}
			}
		}
	}
	for si, n := range count {
		if n < 64 {
			continue
		}
		limit := 8 * math.Sqrt(float64(n)) / 2
		for b := 0; b < (16+4*si)*8; b++ {
			if d := math.Abs(float64(ones[si][b]) - float64(n)/2); d > limit {
				return failf("C07 biased-bit", "entropy bit %d of %d-byte default outputs is 1 in %d of %d samples (more than 8 sigma from 1/2)", b, 16+4*si, ones[si][b], n)
			}
		}
	}
	return nil
})

func TestC07_InProcess(t *testing.T) {
	cov.Rule(c07Rule)
	rounds := pick(90, 1400) // x 50 (n, language) pairs: 4500 | 70000 outputs
	c := &inprocCase{Rounds: rounds}
	cov.Eval(rounds * 100)
	cov.ClassN("default-outputs-through-tee", rounds*50)
	cov.ClassN("unswapped-default-outputs", rounds*50)
	cov.Sample("c07.inproc", c)
	judge(t, "c07.inproc", c07InprocCheck, c)
	_ = strings.Join
}

// c07.concurrent: default-source NewMnemonic from many goroutines at once; every output must be a
// valid mnemonic of the requested size and no output may repeat (a scratch buffer shared between
// overlapping calls produces duplicates or checksum-invalid mixtures).
type concDefaultCase struct {
	Goroutines int `json:"goroutines"`
	Calls      int `json:"calls"`
}

var c07ConcCheck = register("C07", "c07.concurrent", func(c *concDefaultCase) error {
	type out struct {
		n int
		l ref.Lang
		s string
		e error
		p error
	}
	res := make([][]out, c.Goroutines)
	var wg sync.WaitGroup
	start := make(chan struct{})
	for g := 0; g < c.Goroutines; g++ {
		wg.Add(1)
		go func(g int) {
			defer wg.Done()
			<-start
			for i := 0; i < c.Calls; i++ {
				n := ref.Counts[(i+g)%5]
				l := ref.Lang((i/5 + g) % int(ref.NumLangs))
				s, e, p := implNew(n, implLang[l])
				res[g] = append(res[g], out{n, l, s, e, p})
			}
		}(g)
	}
	close(start)
	wg.Wait()
	seen := map[string]bool{}
	for g := range res {
		for i, o := range res[g] {
			op1 := &op{Kind: "new", N: int64(o.n), Lang: int64(implLang[o.l])}
			r := obs{Str: text(o.s)}
			r.Err, r.ErrMsg = classifyErr2(o.e)
			if o.p != nil {
				r.Panic = o.p.Error()
			}
			if err := modelCheck(op1, r); err != nil {
				return failf("C07 concurrent "+sigOf(err), "goroutine %d call %d with %d goroutines calling at once: %v", g, i, c.Goroutines, err)
			}
			if seen[o.s] {
				return failf("C07 concurrent repeated-output", "with %d goroutines calling at once, %s returned %q twice", c.Goroutines, opString(op1), o.s)
			}
			seen[o.s] = true
		}
	}
	return nil
})

func TestC07_Concurrent(t *testing.T) {
	cov.Rule(c07Rule + " || concurrent variant: 16 goroutines draw from the default source at once; every output must be valid and none may repeat")
	c := &concDefaultCase{Goroutines: 16, Calls: pick(1500, 20000)}
	cov.Eval(c.Goroutines * c.Calls)
	cov.Class("concurrent-default-source")
	cov.NonTrivial("c07.concurrent", []byte(fmt.Sprint(c.Goroutines, c.Calls)))
	cov.NonTrivial("c07.concurrent", []byte("b"))
	judge(t, "c07.concurrent", c07ConcCheck, c)
}

// c07.faulty: the default source itself, wrapped so that it fails after k bytes with an
// operating-system style error (getrandom blocked by seccomp, no /dev/urandom in a chroot, ...).
// "Output is a function of that source's bytes only": a sentence may only be returned when the
// wrapped source delivered 4n/3 bytes, and must be their encoding; nothing else may be substituted.
type faultyDefaultCase struct {
	Lang  string `json:"lang"`
	N     int    `json:"n"`
	After int    `json:"after"` // bytes crypto/rand.Reader delivers before failing
	Err   string `json:"err"`
	// WithBytes: the failing Read call also returns the bytes that were still due
	WithBytes bool `json:"with_bytes,omitempty"`
}

type faultyDefault struct {
	r     io.Reader
	left  int
	err   error
	with  bool
	taken bytes.Buffer
	done  bool
}

func (f *faultyDefault) Read(p []byte) (int, error) {
	if f.done {
		return 0, f.err
	}
	k := min(len(p), f.left)
	n, err := io.ReadFull(f.r, p[:k])
	f.taken.Write(p[:n])
	f.left -= n
	if err != nil {
		return n, err
	}
	if f.left == 0 {
		if f.with || n == 0 {
			f.done = true
			return n, f.err
		}
	}
	return n, nil
}

var c07FaultyCheck = register("C07", "c07.faulty", func(c *faultyDefaultCase) error {
	l := mustLang(c.Lang)
	need := c.N / 3 * 4
	if !ref.ValidCount(c.N) || c.After >= need || c.After < 0 {
		harnessError("c07.faulty: bad case")
	}
	src := &faultyDefault{left: c.After, err: eventErr(c.Err), with: c.WithBytes}
	prev := bip39.VerifSwapRandSource(src)
	src.r = prev
	got, err, p := implNew(c.N, implLang[l])
	bip39.VerifSwapRandSource(prev)
	sig := "C07 faulty-source " + c.Err
	if p != nil {
		return failf(sig+" panic", "NewMnemonic(%d, %s) panicked: %v", c.N, l, p)
	}
	if got == "" && err != nil {
		return nil
	}
	drawn := src.taken.Bytes()
	if len(drawn) < need {
		return failf(sig+" substituted", "the default source delivered %d of the %d bytes and then failed with %v; NewMnemonic(%d, %s) nevertheless returned (%q, %v): the missing bytes came from somewhere else", len(drawn), need, src.err, c.N, l, got, err)
	}
	if err == nil && got == ref.Encode(drawn[:need], l) {
		return nil
	}
	return failf(sig, "NewMnemonic(%d, %s) = (%q, %v), which is not the encoding of the bytes %x the source delivered", c.N, l, got, err, drawn)
})

func TestC07_Faulty(t *testing.T) {
	cov.Rule(c07Rule + " || (c) the default source wrapped to fail after k of the 4n/3 bytes with each of 18 error kinds (EOF, EAGAIN, timeout, ENOSYS from getrandom, ENOENT/EACCES opening /dev/urandom, EPERM, EINTR, EIO, fs.ErrNotExist, ...): no sentence may be returned, since its bytes could not have come from the source")
	item := 0
	kinds := append([]string{"EOF", "UnexpectedEOF", "custom", "EAGAIN", "timeout"}, osErrKinds...)
	for _, l := range allLangs() {
		for _, n := range ref.Counts {
			need := n / 3 * 4
			for ki, kind := range kinds {
				for _, after := range []int{0, 1, need / 2, need - 1, (int(l)*7 + ki*3 + n) % need} {
					for _, with := range []bool{false, true} {
						item++
						if !mine(item) {
							continue
						}
						c := &faultyDefaultCase{Lang: l.Name(), N: n, After: after, Err: kind, WithBytes: with}
						cov.Eval(1)
						cov.Class("faulty-default-source")
						cov.Class("err=" + kind)
						cov.NonTrivial("c07.faulty", []byte(fmt.Sprint(*c)))
						if item == 777 {
							cov.Sample("c07.faulty", c)
						}
						judge(t, "c07.faulty", c07FaultyCheck, c)
					}
				}
			}
		}
	}
}

// c07.global-replaced: crypto/rand.Reader (the exported variable) is replaced after start-up by a
// reader that delivers k bytes of a fixed pattern and then fails, while the library's own source
// is left alone. The library may keep using the reader it captured at start-up (ordinary random
// output) or follow the variable (then it must fail closed); it may not return a sentence made
// of the pattern bytes and zeros, or of fewer than 4n/3 source bytes.
type globalReplacedCase struct {
	Lang  string `json:"lang"`
	N     int    `json:"n"`
	After int    `json:"after"`
	Err   string `json:"err"`
}

var c07GlobalCheck = register("C07", "c07.global-replaced", func(c *globalReplacedCase) error {
	l := mustLang(c.Lang)
	need := c.N / 3 * 4
	orig := rand.Reader
	fr := &brokenSource{left: c.After, err: eventErr(c.Err)}
	rand.Reader = fr
	got, err, p := implNew(c.N, implLang[l])
	rand.Reader = orig
	sig := "C07 global-replaced"
	if p != nil {
		return failf(sig+" panic", "NewMnemonic(%d, %s) panicked: %v", c.N, l, p)
	}
	if got == "" && err != nil {
		return nil // follows the variable and fails closed
	}
	e, sumOK, derr := ref.Decode(l, got)
	if err != nil || derr != nil || !sumOK || len(e) != need {
		return failf(sig+" invalid", "with crypto/rand.Reader replaced by a reader failing after %d bytes, NewMnemonic(%d, %s) = (%q, %v)", c.After, c.N, l, got, err)
	}
	pattern := make([]byte, need)
	(&brokenSource{left: c.After}).Read(pattern)
	if bytes.Equal(e, pattern) || suspiciousRun(e) != "" {
		return failf(sig+" substituted", "with crypto/rand.Reader replaced by a reader that delivers %d of %d bytes and then fails with %v, NewMnemonic(%d, %s) returned %q with a nil error: entropy %x is the partly filled buffer", c.After, need, fr.err, c.N, l, got, e)
	}
	return nil
})

func TestC07_GlobalReplaced(t *testing.T) {
	cov.Rule(c07Rule + " || (d) the exported variable crypto/rand.Reader replaced after start-up by a reader failing after k bytes (library source untouched): either ordinary random output from the reader captured at start-up, or (\"\", error); never a sentence made of a partly filled buffer")
	item := 0
	for _, l := range allLangs() {
		for _, n := range ref.Counts {
			for _, kind := range []string{"EOF", "custom", "EAGAIN", "ENOSYS"} {
				for _, after := range []int{0, 1, n/3*4 - 1} {
					item++
					c := &globalReplacedCase{Lang: l.Name(), N: n, After: after, Err: kind}
					cov.Eval(1)
					cov.Class("global-reader-replaced")
					cov.NonTrivial("c07.global", []byte(fmt.Sprint(*c)))
					if item == 5 {
						cov.Sample("c07.global-replaced", c)
					}
					judge(t, "c07.global-replaced", c07GlobalCheck, c)
				}
			}
		}
	}
}

// c07.slow: the default source behind a wrapper whose first Read takes a long time (a blocked
// getrandom at early boot, a hardware token). Whatever the call returns must be made of the
// bytes the source delivered: (encoding of those bytes, nil), or no sentence and an error.
type slowCase struct {
	Lang    string `json:"lang"`
	N       int    `json:"n"`
	Seconds int    `json:"seconds"`
}

type slowReader struct {
	r     io.Reader
	delay time.Duration
	slept bool
	taken bytes.Buffer
	mu    sync.Mutex
}

func (s *slowReader) Read(p []byte) (int, error) {
	s.mu.Lock()
	first := !s.slept
	s.slept = true
	s.mu.Unlock()
	if first {
		time.Sleep(s.delay)
	}
	n, err := s.r.Read(p)
	s.mu.Lock()
	s.taken.Write(p[:n])
	s.mu.Unlock()
	return n, err
}

var c07SlowCheck = register("C07", "c07.slow", func(c *slowCase) error {
	l := mustLang(c.Lang)
	need := c.N / 3 * 4
	src := &slowReader{delay: time.Duration(c.Seconds) * time.Second}
	prev := bip39.VerifSwapRandSource(src)
	src.r = prev
	got, err, p := implNew(c.N, implLang[l])
	bip39.VerifSwapRandSource(prev)
	src.mu.Lock()
	drawn := append([]byte(nil), src.taken.Bytes()...)
	src.mu.Unlock()
	sig := "C07 slow-source"
	if p != nil {
		return failf(sig+" panic", "NewMnemonic(%d, %s) panicked: %v", c.N, l, p)
	}
	if got == "" && err != nil {
		cov.Class("gave-up-on-slow-source")
		return nil
	}
	if err != nil || len(drawn) < need || got != ref.Encode(drawn[:need], l) {
		return failf(sig, "the default source needed %d s for its first Read; NewMnemonic(%d, %s) returned (%q, %v) when the source had delivered %d bytes (%x): not the encoding of the source's bytes", c.Seconds, c.N, l, got, err, len(drawn), drawn)
	}
	return nil
})

func TestC07_Slow(t *testing.T) {
	cov.Rule(c07Rule + " || (e) the default source behind a wrapper whose first Read takes 12 s (thorough: also 35 s and 65 s): the result must be the encoding of the bytes it delivered, or an error without a sentence")
	secs := []int{12}
	if thorough() {
		secs = []int{12, 35, 65}
	}
	var wg sync.WaitGroup
	errs := make([]error, len(secs))
	cases := make([]*slowCase, len(secs))
	for i, sec := range secs {
		cases[i] = &slowCase{Lang: ref.Lang(i * 3 % int(ref.NumLangs)).Name(), N: ref.Counts[i%5], Seconds: sec}
	}
	// one after the other: the source is a process-wide setting
	for i := range cases {
		wg.Add(1)
		func(i int) {
			defer wg.Done()
			errs[i] = c07SlowCheck(cases[i])
		}(i)
	}
	wg.Wait()
	for i := range cases {
		cov.Eval(1)
		cov.Class("slow-default-source")
		cov.NonTrivial("c07.slow", []byte(fmt.Sprint(*cases[i])))
		cov.Sample("c07.slow", cases[i])
		judge(t, "c07.slow", func(*slowCase) error { return errs[i] }, cases[i])
	}
}
