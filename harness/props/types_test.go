package props

import (
	"encoding/base64"
	"encoding/hex"
	"encoding/json"
	"unicode/utf8"
)

// hexb is a byte slice that travels as a hex string in JSON.
type hexb []byte

func (h hexb) MarshalJSON() ([]byte, error) { return json.Marshal(hex.EncodeToString(h)) }
func (h *hexb) UnmarshalJSON(b []byte) error {
	var s string
	if err := json.Unmarshal(b, &s); err != nil {
		return err
	}
	v, err := hex.DecodeString(s)
	*h = v
	return err
}

// text is a string that may be invalid UTF-8: valid strings travel as JSON
// strings, anything else as {"b64": "..."}.
type text string

func (t text) MarshalJSON() ([]byte, error) {
	if utf8.ValidString(string(t)) {
		return json.Marshal(string(t))
	}
	return json.Marshal(map[string]string{"b64": base64.StdEncoding.EncodeToString([]byte(t))})
}

func (t *text) UnmarshalJSON(b []byte) error {
	var s string
	if err := json.Unmarshal(b, &s); err == nil {
		*t = text(s)
		return nil
	}
	var m map[string]string
	if err := json.Unmarshal(b, &m); err != nil {
		return err
	}
	v, err := base64.StdEncoding.DecodeString(m["b64"])
	*t = text(v)
	return err
}
