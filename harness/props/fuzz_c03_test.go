package props

import (
	"strings"
	"testing"

	"verif/harness/cov"
	"verif/harness/ref"
)

// FuzzC03 — coverage-guided search over structured sentence mutations: the bytes
// decode to (language, count, indices, solve-last flag, edit program); the oracle
// is c03.text (an accepted string must be a valid mnemonic; the two validators agree).
func fuzzC03Decode(data []byte) *textCase {
	next := func() byte {
		if len(data) == 0 {
			return 0
		}
		b := data[0]
		data = data[1:]
		return b
	}
	l := ref.Lang(int(next()) % int(ref.NumLangs))
	n := ref.Counts[int(next())%len(ref.Counts)]
	idx := make([]int, n)
	for i := range idx {
		idx[i] = (int(next())<<8 | int(next())) & 2047
	}
	if flag := next(); flag&1 == 1 {
		sol := ref.SolveLast(idx[:n-1])
		idx[n-1] = sol[int(next())%len(sol)]
	}
	toks := ref.Words(l, idx)
	sep := " "
	checkLang := l
	for len(data) >= 3 && len(toks) > 0 {
		opc, pos, arg := int(next()), int(next()), int(next())
		p := pos % len(toks)
		switch opc % 11 {
		case 0:
			toks[p] = ref.Golden(l)[(arg<<3|pos&7)&2047]
		case 1:
			toks = append(toks[:p], toks[p+1:]...)
		case 2:
			toks = append(toks[:p+1], toks[p:]...)
		case 3:
			q := arg % len(toks)
			toks[p], toks[q] = toks[q], toks[p]
		case 4:
			toks[p] = strings.ToUpper(toks[p])
		case 5:
			o := ref.Lang(arg % int(ref.NumLangs))
			if i, ok := ref.WordIndex(l, toks[p]); ok {
				toks[p] = ref.Golden(o)[i]
			}
		case 6:
			k := arg % 8
			if k > len(data) {
				k = len(data)
			}
			toks[p] = string(data[:k])
			data = data[k:]
		case 7:
			sep = []string{" ", "\u3000", "  ", "\t", "\n", " ", "", " \u3000"}[arg%8]
		case 8:
			if r := []rune(toks[p]); len(r) > 1 {
				toks[p] = string(r[:len(r)-1])
			}
		case 9:
			checkLang = ref.Lang(arg % int(ref.NumLangs))
		case 10:
			if len(toks) < 64 {
				toks = append(toks, ref.Golden(l)[(arg<<3)&2047])
			}
		}
	}
	return &textCase{Lang: checkLang.Name(), Text: text(strings.Join(toks, sep)), Class: "fuzz"}
}

func FuzzC03(f *testing.F) {
	cov.Rule(c03Rule)
	// seeds: one clean sentence per count, the pinned defect (all-zero entropy with a wrong last
	// word), and a few edit programs
	for li := 0; li < int(ref.NumLangs); li++ {
		for ci := range ref.Counts {
			seed := []byte{byte(li), byte(ci)}
			for i := 0; i < ref.Counts[ci]; i++ {
				seed = append(seed, byte(i*7+li), byte(i*37+ci))
			}
			seed = append(seed, 1, byte(li+ci))
			f.Add(seed)
		}
	}
	zero := append([]byte{3, 0}, make([]byte, 24)...)
	f.Add(append(zero, 0))                      // abandon x12 (wrong checksum)
	f.Add(append(append(zero, 1, 0), 0, 11, 1)) // valid, then last word replaced
	f.Add(append(append(zero, 1, 0), 7, 0, 1))
	f.Add(append(append(zero, 1, 0), 2, 3, 0, 1, 0, 0))
	f.Fuzz(func(t *testing.T, data []byte) {
		c := fuzzC03Decode(data)
		c03RecordText(c, mustLang(c.Lang))
		judge(t, "c03.text", c03TextCheck, c)
	})
}
