package props

import (
	"fmt"
	"strings"

	bip39 "github.com/islishude/bip39"
	"pgregory.net/rapid"

	"verif/harness/cov"
	"verif/harness/gen"
	"verif/harness/ref"
)

// Histories in front of a property's own case.
//
// Every property is stated for every call, whatever the process did before. Two wrappers put
// earlier calls in front of a property's case:
//   - hist[C] / withHistory: the earlier calls run in the same goroutine of the same (warm)
//     process, directly before the case's own check;
//   - coldCase / coldCheck: the earlier calls and the probing calls run in a freshly started
//     child process (first-use order of languages and entry points), every observation is
//     compared with the history-free reference model.
// The earlier calls themselves are ordinary: rejected sentences (unknown word, wrong checksum,
// wrong count), accepted ones, the sibling language, encodes with spare capacity, NewMnemonic
// with a source that ends or fails part-way, unsupported languages, String, seeds.

type hist[C any] struct {
	History []op `json:"history"`
	Case    C    `json:"case"`
}

// historyCheck: run the history, then check.
func historyCheck[C any](check func(*C) error) func(*hist[C]) error {
	return func(h *hist[C]) error {
		for i := range h.History {
			execOp(&h.History[i], nil, "")
		}
		err := check(&h.Case)
		if err == nil {
			return nil
		}
		var calls []string
		for i := range h.History {
			calls = append(calls, opString(&h.History[i]))
		}
		return failf(sigOf(err)+" after-history", "after the earlier calls [%s] in the same goroutine: %v", strings.Join(calls, "; "), err)
	}
}

// judgeH judges the case as judge does; one case in four it first makes 1..5 earlier calls around
// language l in the same goroutine (the failing case is then saved with its history, kind
// "<kind>@history").
func judgeH[C any](rt *rapid.T, kind string, check func(*C) error, c *C, l ref.Lang) {
	rt.Helper()
	if rapid.IntRange(0, 3).Draw(rt, "after-history") != 0 {
		judge(rt, kind, check, c)
		return
	}
	h := &hist[C]{History: drawHistory(rt, l), Case: *c}
	cov.Class("after-history")
	recordHistory(h.History)
	judge(rt, kind+"@history", historyCheck(check), h)
}

// siblingOf: the language a shared table would be shared with.
func siblingOf(l ref.Lang) ref.Lang {
	switch l {
	case ref.ChineseSimplified:
		return ref.ChineseTraditional
	case ref.ChineseTraditional:
		return ref.ChineseSimplified
	case ref.French:
		return ref.English // 100 shared words
	case ref.English:
		return ref.French
	case ref.Spanish:
		return ref.Portuguese
	case ref.Portuguese:
		return ref.Spanish
	}
	return ref.Lang((int(l) + 1) % int(ref.NumLangs))
}

// drawHistory draws 1..5 earlier calls that revolve around language l.
func drawHistory(rt *rapid.T, l ref.Lang) []op {
	n := rapid.IntRange(1, 5).Draw(rt, "history-calls")
	out := make([]op, 0, n)
	for i := 0; i < n; i++ {
		hl := l
		switch rapid.IntRange(0, 5).Draw(rt, "history-lang") {
		case 0:
			hl = siblingOf(l)
		case 1:
			hl = gen.Lang().Draw(rt, "other-lang")
		}
		il := int64(implLang[hl])
		idx := gen.ValidIndices().Draw(rt, "history-sentence")
		words := ref.Words(hl, idx)
		valid := strings.Join(words, " ")
		var o op
		switch kind := rapid.SampledFrom([]string{"check-unknown", "check-unknown", "check-checksum", "check-count", "check-valid", "check-defect",
			"valid-unknown", "encode", "encode-badsize", "new-partial", "new-partial", "new-ok", "new-badcount", "unsupported", "string", "seed", "check-other-lang"}).Draw(rt, "history-kind"); kind {
		case "check-unknown", "valid-unknown":
			p := rapid.SampledFrom([]int{0, 1, len(words) - 1, rapid.IntRange(0, len(words)-1).Draw(rt, "pos")}).Draw(rt, "typo-at")
			w := append([]string(nil), words...)
			w[p] = rapid.SampledFrom([]string{"zzzz", w[p] + "x", strings.ToUpper(w[p][:1]) + w[p][1:], "abilty", ""}).Draw(rt, "typo")
			o = op{Kind: "check", Lang: il, Text: text(strings.Join(w, " "))}
			if kind == "valid-unknown" {
				o.Kind = "valid"
			}
		case "check-checksum":
			w := append([]string(nil), words...)
			w[len(w)-1] = ref.Golden(hl)[(idx[len(idx)-1]+1)%2048]
			o = op{Kind: "check", Lang: il, Text: text(strings.Join(w, " "))}
		case "check-count":
			o = op{Kind: "check", Lang: il, Text: text(strings.Join(words[:len(words)-1], " "))}
		case "check-valid":
			o = op{Kind: "check", Lang: il, Text: text(strings.Join(words, hl.Sep()))}
		case "check-defect":
			m := gen.Defect().Draw(rt, "defect")
			if len(m.Text) > 4096 {
				m.Text = valid + " zzzz"
			}
			o = op{Kind: "check", Lang: int64(implLang[m.Lang]), Text: text(m.Text)}
		case "check-other-lang":
			o = op{Kind: "check", Lang: int64(implLang[siblingOf(hl)]), Text: text(valid)}
		case "encode":
			o = op{Kind: "encode", Lang: il, Entropy: gen.Entropy().Draw(rt, "history-entropy").Bytes, ExtraCap: rapid.SampledFrom([]int{0, 1, 8, 64}).Draw(rt, "extra-cap")}
		case "encode-badsize":
			o = op{Kind: "encode", Lang: il, Entropy: gen.TextBytes(rapid.SampledFrom([]int{0, 15, 17, 33, 40, 48, 64}).Draw(rt, "bad-size")).Draw(rt, "bad-entropy")}
		case "new-partial":
			cnt := gen.Count().Draw(rt, "count")
			k := rapid.IntRange(1, cnt/3*4-1).Draw(rt, "delivered")
			o = op{Kind: "new", Lang: il, N: int64(cnt), Source: rapid.SliceOfN(rapid.Byte(), k, k).Draw(rt, "partial-source"),
				SourceErr: rapid.SampledFrom(append([]string{"", "", "EAGAIN", "timeout", "custom"}, osErrKinds...)).Draw(rt, "source-err")}
		case "new-ok":
			cnt := gen.Count().Draw(rt, "count")
			o = op{Kind: "new", Lang: il, N: int64(cnt), Source: rapid.SliceOfN(rapid.Byte(), cnt/3*4, cnt/3*4+3).Draw(rt, "source")}
		case "new-badcount":
			o = op{Kind: "new", Lang: il, N: int64(rapid.SampledFrom([]int{0, 11, 13, 25, 27, -12}).Draw(rt, "bad-count"))}
		case "unsupported":
			o = op{Kind: "encode", Lang: rapid.SampledFrom([]int64{-1, 10, 42, 99}).Draw(rt, "unsupported-lang"), Entropy: gen.Entropy().Draw(rt, "history-entropy").Bytes}
			if rapid.Bool().Draw(rt, "check-instead") {
				o = op{Kind: "check", Lang: o.Lang, Text: text(valid)}
			}
		case "string":
			o = op{Kind: "string", Lang: rapid.SampledFrom([]int64{il, -1, 10, 42, 1 << 20}).Draw(rt, "string-lang")}
		case "seed":
			o = op{Kind: "seed", Text: text(valid), Pass: text(rapid.SampledFrom([]string{"", "TREZOR"}).Draw(rt, "pass")), Wipe: rapid.Bool().Draw(rt, "wipe")}
		}
		out = append(out, o)
	}
	return out
}

func recordHistory(h []op) {
	cov.ClassN("history-calls", len(h))
	for i := range h {
		cov.Class("history-op=" + h[i].Kind)
	}
}

// ---- fresh-process variant ------------------------------------------------------------------

// coldCase: History, then Probe, executed by one goroutine of a freshly started process.
type coldCase struct {
	History []op `json:"history"`
	Probe   []op `json:"probe"`
}

// coldCheck returns the check for a property's cold-start kind: every call of the fresh process
// (earlier calls and probing calls alike) must agree with the history-free reference model.
func coldCheck(property string) func(*coldCase) error {
	return func(c *coldCase) error {
		ops := append(append([]op(nil), c.History...), c.Probe...)
		r := spawnChild(&plan{Phases: []phase{{Goroutines: [][]op{ops}}}}, false)
		if r.Report == nil {
			if r.Crashed {
				return failf(property+" child-crash", "a fresh process executing the calls died: %s", describeChildFailure(r))
			}
			harnessError("cold start: child failed without a Go crash: %s", describeChildFailure(r))
		}
		if len(r.Report.Results) != 1 || len(r.Report.Results[0]) != 1 || len(r.Report.Results[0][0]) != len(ops) {
			harnessError("cold start: malformed child report")
		}
		res := r.Report.Results[0][0]
		for i := len(ops) - 1; i >= 0; i-- { // probing calls first: they are the property's own
			if err := modelCheck(&ops[i], res[i]); err != nil {
				var calls []string
				for j := 0; j < i; j++ {
					calls = append(calls, opString(&ops[j]))
				}
				return failf(property+" cold "+sigOf(err), "call %d of a freshly started process (earlier calls: [%s]): %v", i, strings.Join(calls, "; "), err)
			}
		}
		if len(r.Report.LaterMutated) > 0 {
			return failf(property+" cold later-mutation", "after the calls of a fresh process finished, caller-owned memory had changed: %v", r.Report.LaterMutated)
		}
		return nil
	}
}

// coldConcCheck: the goroutines of a freshly started process make their calls at once (first use
// of a language from several goroutines); every observation must agree with the reference model.
func coldConcCheck(property string) func(*concCallCase) error {
	return func(c *concCallCase) error {
		r := spawnChild(&c.Plan, false)
		if r.Report == nil {
			if r.Crashed {
				return failf(property+" child-crash", "a fresh process whose goroutines call the API at once died: %s", describeChildFailure(r))
			}
			harnessError("cold concurrent start: child failed without a Go crash: %s", describeChildFailure(r))
		}
		for pi := range r.Report.Results {
			for gi := range r.Report.Results[pi] {
				for oi := range r.Report.Results[pi][gi] {
					o := &c.Plan.Phases[pi].Goroutines[gi][oi]
					if err := modelCheck(o, r.Report.Results[pi][gi][oi]); err != nil {
						return failf(property+" cold-concurrent "+sigOf(err), "goroutine %d of %d, call %d, in a freshly started process: %v", gi, len(c.Plan.Phases[pi].Goroutines), oi, err)
					}
				}
			}
		}
		return nil
	}
}

// coldFirstUse enumerates first-use orders for language l: which entry point touches the
// language first (validation of a valid / rejected sentence, encoding, generation, String) before
// the probing calls are made.
func coldFirstUse(l ref.Lang, k int) [][]op {
	il := int64(implLang[l])
	e := tableEntropiesSmall(int(l)*31 + k)
	s := ref.Encode(e, l)
	idx := ref.Indices(e)
	bad := strings.Join(ref.Words(l, append(append([]int(nil), idx[:11]...), (idx[11]+1)%2048)), " ")
	typo := strings.Replace(s, l.Sep(), l.Sep()+"zzzz"+l.Sep(), 1)
	sib := int64(implLang[siblingOf(l)])
	return [][]op{
		{},
		{{Kind: "check", Lang: il, Text: text(s)}},
		{{Kind: "valid", Lang: il, Text: text(bad)}},
		{{Kind: "check", Lang: il, Text: text(typo)}},
		{{Kind: "check", Lang: il, Text: text("")}},
		{{Kind: "encode", Lang: il, Entropy: e}},
		{{Kind: "new", Lang: il, N: 12}},
		{{Kind: "new", Lang: il, N: 24, Source: e}}, // the source ends after 16 of 32 bytes
		{{Kind: "string", Lang: il}},
		{{Kind: "check", Lang: sib, Text: text(s)}},
		{{Kind: "encode", Lang: sib, Entropy: e}, {Kind: "check", Lang: sib, Text: text(ref.Encode(e, siblingOf(l)))}},
		{{Kind: "encode", Lang: 42, Entropy: e}},
		{{Kind: "seed", Text: text(s), Pass: "TREZOR"}},
	}
}

var _ = fmt.Sprint
var _ = bip39.English
