package props

import (
	"bytes"
	"fmt"
	"runtime"
	"strings"
	"testing"
	"unicode"

	"pgregory.net/rapid"

	"verif/harness/cov"
	"verif/harness/gen"
	"verif/harness/ref"
)

// C01 — NewMnemonicByEntropy returns exactly the BIP39 sentence.

type encCase struct {
	Lang    string `json:"lang"` // declared identifier, e.g. "English"
	Entropy hexb   `json:"entropy"`
	Shape   string `json:"shape,omitempty"`
}

func (c *encCase) lang() ref.Lang { return mustLang(c.Lang) }

// mustLang resolves a language name used in a case.
func mustLang(name string) ref.Lang {
	l, ok := ref.LangByName(name)
	if !ok {
		harnessError("case names unknown language %q", name)
	}
	return l
}

var c01Check = register("C01", "c01.encode", func(c *encCase) error {
	l := c.lang()
	got, err, p := implEncode(c.Entropy, implLang[l])
	sig := fmt.Sprintf("C01 encode lang=%s size=%d", l, len(c.Entropy))
	if p != nil {
		return failf(sig+" panic", "NewMnemonicByEntropy(%x, %s) panicked: %v", c.Entropy, l, p)
	}
	if err != nil {
		return failf(sig+" error", "NewMnemonicByEntropy(%x, %s) returned error %v", c.Entropy, l, err)
	}
	want := ref.Encode(c.Entropy, l)
	if got != want {
		return failf(sig, "NewMnemonicByEntropy(%x, %s) =\n  %q, BIP39 says\n  %q%s", c.Entropy, l, got, want, firstDiff(got, want, l))
	}
	// the returned sentence must stay what it was after a later call with another entropy
	other := append([]byte(nil), c.Entropy...)
	for i := range other {
		other[i] ^= 0x5a
	}
	implEncode(other, implLang[l])
	if len(c.Entropy) > 1 && c.Entropy[len(c.Entropy)-1] == 0x5a && c.Entropy[0]%4 == 0 {
		runtime.GC() // now and then: a collection while the caller still holds the sentence
	}
	if got != want {
		return failf(sig+" retained", "the sentence returned by NewMnemonicByEntropy(%x, %s) changed after a later call: it now reads %q", []byte(c.Entropy), l, got)
	}
	// the same buffer refilled in place and passed again (callers recycle entropy buffers)
	buf := append([]byte(nil), c.Entropy...)
	implEncode(buf, implLang[l])
	for i := range buf {
		buf[i] = buf[i]*31 + byte(i) + 7
	}
	if again, err2, p2 := implEncode(buf, implLang[l]); p2 != nil || err2 != nil || again != ref.Encode(buf, l) {
		return failf(sig+" reused-buffer", "after NewMnemonicByEntropy(%x, %s) the caller refilled the same buffer with %x and called again: got (%q, %v, panic=%v), BIP39 says %q", []byte(c.Entropy), l, buf, again, err2, p2, ref.Encode(buf, l))
	}
	// the entropy as a window of a larger buffer the caller still uses (cap > len): the call must
	// leave the rest of the buffer alone, or the caller's next window no longer holds its entropy
	{
		n := len(c.Entropy)
		slab := make([]byte, 2*n+8)
		for i := range slab {
			slab[i] = c.Entropy[i%n] ^ byte(i/n*0x6d)
		}
		pristine := append([]byte(nil), slab...)
		for w := 0; w < 2; w++ {
			win := slab[w*n : (w+1)*n]
			if s, err3, p3 := implEncode(win, implLang[l]); p3 != nil || err3 != nil || s != ref.Encode(pristine[w*n:(w+1)*n], l) {
				return failf(sig+" window", "NewMnemonicByEntropy on window %d (%x) of a larger buffer, after the call on window %d: got (%q, %v, panic=%v), BIP39 says %q; the buffer was %x and is now %x", w, pristine[w*n:(w+1)*n], w-1, s, err3, p3, ref.Encode(pristine[w*n:(w+1)*n], l), pristine, slab)
			}
		}
	}
	// the structural reading of the property's last sentence, independent of the lists
	sep := l.Sep()
	toks := strings.Split(got, sep)
	if len(toks) != len(c.Entropy)/4*3 {
		return failf(sig+" structure", "%d tokens between separators, want %d", len(toks), len(c.Entropy)/4*3)
	}
	for _, tk := range toks {
		if tk == "" {
			return failf(sig+" structure", "empty token (doubled, leading or trailing separator) in %q", got)
		}
		for _, r := range tk {
			if unicode.IsSpace(r) {
				return failf(sig+" structure", "whitespace %U inside token %q", r, tk)
			}
		}
	}
	return nil
})

func firstDiff(got, want string, l ref.Lang) string {
	g, w := strings.Split(got, l.Sep()), strings.Split(want, l.Sep())
	for i := 0; i < len(g) && i < len(w); i++ {
		if g[i] != w[i] {
			return fmt.Sprintf("\n  first difference at word %d: %q vs %q", i, g[i], w[i])
		}
	}
	return ""
}

const c01Rule = "C01: (a) complete pairwise table \u2014 for each of 10 languages x 5 sizes, 2048 rotation entropies (word p = (s+89p) mod 2048) and 2048 counter-searched entropies realising every index in the checksum-bearing last word, i.e. every (language,size,position,index) tuple; (a') per language and size, the entropies whose sentences consist of the longest / shortest words of the list (extreme byte length); (b) counter search realising all 256 first-SHA-256-byte values at every checksum width; (c) rapid-generated structured entropies (uniform, k leading zero bytes, runs of 0/1 bits at either end, all-0/all-1, single bit, edge indices, chosen hash byte) x language. Oracle: bit-slice reference encoder over golden lists, byte-for-byte, plus separator structure. Every case is non-trivial (no trivial encode exists); distinct by (language, entropy)"

func c01Record(c *encCase, tuples *tupleSet, hb *[5][256]bool) {
	cov.Eval(1)
	cov.Class("size=" + fmt.Sprint(len(c.Entropy)))
	if c.Shape != "" {
		cov.Class("shape=" + c.Shape)
	}
	cov.Class(fmt.Sprintf("lead-zero-bytes=%d", min(gen.LeadingZeroBytes(c.Entropy), 4)))
	cov.NonTrivial("enc", []byte(c.Lang), c.Entropy)
	if tuples != nil {
		tuples.addEntropy(c.lang(), c.Entropy)
	}
	if hb != nil {
		h := ref.SHA256First(c.Entropy)
		hb[(len(c.Entropy)-16)/4][h] = true
	}
}

func TestC01_Table(t *testing.T) {
	cov.Rule(c01Rule)
	tuples := newTupleSet()
	var hb [5][256]bool
	item := 0
	for _, size := range ref.Sizes {
		tab := tableEntropies(size)
		for _, l := range allLangs() {
			for i := range tab {
				item++
				if !mine(item) {
					continue
				}
				c := &encCase{Lang: l.Name(), Entropy: tab[i].Bytes, Shape: "table-" + tab[i].Kind}
				c01Record(c, tuples, &hb)
				if i == 5 && l == ref.Korean {
					cov.Sample("c01.encode", c)
				}
				judge(t, "c01.encode", c01Check, c)
			}
		}
		// (b) every value of the first SHA-256 byte at this checksum width
		if mine(size) {
			seen := 0
			var have [256]bool
			e := bytes.Repeat([]byte{0x5a}, size)
			for ctr := 0; seen < 256 && ctr < 1<<20; ctr++ {
				e[0], e[1], e[2] = byte(ctr), byte(ctr>>8), byte(ctr>>16)
				h := ref.SHA256First(e)
				if have[h] {
					continue
				}
				have[h] = true
				seen++
				l := ref.Lang(int(h) % int(ref.NumLangs))
				c := &encCase{Lang: l.Name(), Entropy: append([]byte(nil), e...), Shape: "hash-byte-sweep"}
				c01Record(c, tuples, &hb)
				judge(t, "c01.encode", c01Check, c)
			}
			if seen != 256 {
				harnessError("hash-byte sweep found %d values", seen)
			}
		}
	}
	for _, l := range allLangs() {
		for _, e := range extremeEntropies(l) {
			c := &encCase{Lang: l.Name(), Entropy: e, Shape: "table-extreme-length"}
			c01Record(c, tuples, &hb)
			judge(t, "c01.encode", c01Check, c)
		}
	}
	suffix := ""
	if runtime.GOARCH != "amd64" {
		suffix = "_" + runtime.GOARCH // the table is repeated in a 32-bit build in the thorough tier
	}
	cov.ExtraAdd("tuples_lang_size_pos_idx_seen"+suffix, int64(tuples.n))
	n := 0
	for i := range hb {
		for _, b := range hb[i] {
			if b {
				n++
			}
		}
	}
	cov.ExtraAdd("width_hashbyte_pairs_seen"+suffix, int64(n))
	cov.Extra("tuples_total", 10*90*2048)
	cov.Exhaustive("every (language, size, word position, 11-bit index) tuple: 10 x 90 x 2048")
}

func TestC01_Random(t *testing.T) {
	cov.Rule(c01Rule)
	k := 0
	rapidCheck(t, func(rt *rapid.T) {
		l := gen.Lang().Draw(rt, "lang")
		e := gen.Entropy().Draw(rt, "ent")
		c := &encCase{Lang: l.Name(), Entropy: e.Bytes, Shape: e.Shape}
		c01Record(c, nil, nil)
		if k++; k%997 == 1 {
			cov.Sample("c01.encode", c)
		}
		judge(rt, "c01.encode", c01Check, c)
	})
}

// TestC01_AfterValidation: the table's rotation entropies again, in a process that has first
// validated sentences in every language (lookup tables built, lists touched by the validator).
func TestC01_AfterValidation(t *testing.T) {
	cov.Rule(c01Rule + " || the rotation table is repeated in a process that validated a sentence in every language first")
	for _, l := range allLangs() {
		e := tableEntropies(16)[int(l)*7].Bytes
		s := ref.Encode(e, l)
		implCheck(s, implLang[l])
		implValid("not "+s, implLang[l])
	}
	for _, size := range ref.Sizes {
		tab := tableEntropies(size)
		for _, l := range allLangs() {
			for i := 0; i < 2048; i += pick(4, 1) {
				c := &encCase{Lang: l.Name(), Entropy: tab[i].Bytes, Shape: "table-after-validation"}
				cov.Eval(1)
				cov.Class("after-validation")
				cov.NonTrivial("enc-after-validation", []byte(c.Lang), c.Entropy)
				judge(t, "c01.encode", c01Check, c)
			}
		}
	}
}

// c01.history: the encode check directly after earlier calls in the same goroutine (rejected
// sentences, generation from a source that fails part-way, other languages, ...).
var c01HistCheck = historyCheck(c01Check)

func TestC01_History(t *testing.T) {
	cov.Rule(c01Rule + " || each rapid case again directly after 1..5 earlier calls in the same goroutine (rejected and accepted validations, the sibling language, NewMnemonic from a source that ends part-way, wrong sizes, unsupported languages, seeds)")
	k := 0
	rapidCheck(t, func(rt *rapid.T) {
		l := gen.Lang().Draw(rt, "lang")
		e := gen.Entropy().Draw(rt, "ent")
		h := &hist[encCase]{History: drawHistory(rt, l), Case: encCase{Lang: l.Name(), Entropy: e.Bytes, Shape: e.Shape}}
		c01Record(&h.Case, nil, nil)
		recordHistory(h.History)
		if k++; k%499 == 1 {
			cov.Sample("c01.encode@history", h)
		}
		judge(rt, "c01.encode@history", c01HistCheck, h)
	})
}

// c01.cold: encoding in a freshly started process, for every language x every way of touching
// the language first (first-use order of the lazily built tables).
var c01ColdCheck = register("C01", "c01.cold", coldCheck("C01"))

func TestC01_Cold(t *testing.T) {
	cov.Rule(c01Rule + " || every language x 13 first-use patterns (what touched the language first in a freshly started process), then encodes of all five sizes")
	item := 0
	for _, l := range allLangs() {
		for k, first := range coldFirstUse(l, 0) {
			item++
			if !mine(item) {
				continue
			}
			var probe []op
			for si, size := range ref.Sizes {
				e := tableEntropies(size)[(int(l)*97+k*13+si)%2048].Bytes
				probe = append(probe, op{Kind: "encode", Lang: int64(implLang[l]), Entropy: e, ExtraCap: si % 2 * 8})
			}
			c := &coldCase{History: first, Probe: probe}
			cov.Eval(len(probe))
			cov.Class("cold-start")
			cov.ClassN("first-use-pattern", k)
			cov.NonTrivial("c01.cold", []byte(l.Name()), []byte{byte(k)})
			if item == 3 {
				cov.Sample("c01.cold", c)
			}
			judge(t, "c01.cold", c01ColdCheck, c)
		}
	}
}
