package props

import (
	"sync"

	"verif/harness/gen"
	"verif/harness/ref"
)

// The complete pairwise table: per size, 2048 "rotation" entropies in which
// word p has index (s + 89*p) mod 2048 for every free position p (so every
// (position, index) pair of positions 0..n-2 occurs), and 2048 "last-word"
// entropies found by counter search so that the last word — whose low CS bits
// are checksum — takes every index 0..2047 as well.

type tableEnt struct {
	Bytes []byte
	Kind  string // rotation | last-word
	S     int
}

var (
	tableMu    sync.Mutex
	tableCache = map[int][]tableEnt{}
)

func tableEntropies(size int) []tableEnt {
	tableMu.Lock()
	defer tableMu.Unlock()
	if t, ok := tableCache[size]; ok {
		return t
	}
	n := size / 4 * 3
	cs := uint(size / 4)
	var out []tableEnt
	for s := 0; s < 2048; s++ {
		idx := make([]int, n)
		for p := range idx {
			idx[p] = (s + 89*p) % 2048
		}
		out = append(out, tableEnt{Bytes: gen.FromIndices(size, idx), Kind: "rotation", S: s})
	}
	for target := 0; target < 2048; target++ {
		hi, want := target>>cs, target&(1<<cs-1)
		idx := make([]int, n)
		for p := 0; p < n-1; p++ {
			idx[p] = (target*31 + 97*p + 5) % 2048
		}
		idx[n-1] = hi << cs
		e := gen.FromIndices(size, idx)
		found := false
		// vary the first four bytes (words 0..2) until the checksum bits are the wanted ones
		for c := 0; c < 1<<24 && !found; c++ {
			e[0], e[1], e[2], e[3] = byte(c*7+target), byte(c>>3), byte(c>>11), byte(c>>19)^byte(target>>3)
			if ref.ChecksumOf(e) == want {
				out = append(out, tableEnt{Bytes: append([]byte(nil), e...), Kind: "last-word", S: target})
				found = true
			}
		}
		if !found {
			harnessError("table: no entropy found for last index %d at size %d", target, size)
		}
	}
	tableCache[size] = out
	return out
}

// tupleSet tracks which (language, size, position, index) tuples were executed.
type tupleSet struct {
	bits []uint64
	n    int
}

func newTupleSet() *tupleSet {
	return &tupleSet{bits: make([]uint64, (int(ref.NumLangs)*5*24*2048+63)/64)}
}

func (s *tupleSet) add(l ref.Lang, size, pos, idx int) {
	k := ((int(l)*5+(size-16)/4)*24+pos)*2048 + idx
	if s.bits[k/64]&(1<<uint(k%64)) == 0 {
		s.bits[k/64] |= 1 << uint(k%64)
		s.n++
	}
}

func (s *tupleSet) addEntropy(l ref.Lang, e []byte) {
	for p, x := range ref.Indices(e) {
		s.add(l, len(e), p, x)
	}
}

// extremeEntropies: for a language, the entropies whose sentences are made of the longest /
// shortest words of the list (extreme byte length), every size.
func extremeEntropies(l ref.Lang) [][]byte {
	var out [][]byte
	for _, n := range ref.Counts {
		for variant := 0; variant < 6; variant++ {
			for _, longest := range []bool{true, false} {
				e, _ := ref.Unpack(gen.ExtremeIndices(l, n, longest, variant*4))
				out = append(out, e)
			}
		}
	}
	return out
}
