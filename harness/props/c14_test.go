package props

import (
	"encoding/binary"
	"encoding/json"
	"fmt"
	"math"
	"os"
	"strings"
	"sync"
	"testing"
	"time"
	"unicode/utf8"

	bip39 "github.com/islishude/bip39"
	"pgregory.net/rapid"

	"verif/harness/cov"
	"verif/harness/gen"
	"verif/harness/ref"
)

// C14 — no exported function panics or hangs, whatever the arguments.

type callCase struct {
	Fn   string `json:"fn"` // NewMnemonic | NewMnemonicByEntropy | CheckMnemonic | IsMnemonicValid | MnemonicToSeed | String
	Lang int64  `json:"lang"`
	N    int64  `json:"n,omitempty"`
	// the string / entropy argument is Unit repeated Times, followed by Tail
	Unit  text `json:"unit,omitempty"`
	Times int  `json:"times,omitempty"`
	Tail  text `json:"tail,omitempty"`
	Nil   bool `json:"nil,omitempty"` // nil entropy slice
	// passphrase = PassUnit repeated PassTimes
	PassUnit  text `json:"pass_unit,omitempty"`
	PassTimes int  `json:"pass_times,omitempty"`
	// SourceFails, for NewMnemonic: a randomness source installed through the hook for this call
	// that delivers SourceAfter bytes and from then on fails with this error kind on every Read
	// (a source that never recovers: the call must still return)
	SourceFails string `json:"source_fails,omitempty"`
	SourceAfter int    `json:"source_after,omitempty"`
}

// brokenSource delivers left bytes, then fails on every call.
type brokenSource struct {
	left int
	err  error
}

func (b *brokenSource) Read(p []byte) (int, error) {
	if b.left <= 0 {
		return 0, b.err
	}
	k := min(len(p), b.left)
	for i := 0; i < k; i++ {
		p[i] = byte(0x41 + i)
	}
	b.left -= k
	return k, nil
}

func (c *callCase) arg() string  { return strings.Repeat(string(c.Unit), c.Times) + string(c.Tail) }
func (c *callCase) pass() string { return strings.Repeat(string(c.PassUnit), c.PassTimes) }

const hangLimit = 120 * time.Second

// watchdog: a call that has not returned after hangLimit is reported as a hang.
var watchdog struct {
	sync.Mutex
	started time.Time
	current *callCase
	once    sync.Once
}

func watchStart(c *callCase) {
	watchdog.once.Do(func() {
		go func() {
			for {
				time.Sleep(2 * time.Second)
				watchdog.Lock()
				c, since := watchdog.current, time.Since(watchdog.started)
				watchdog.Unlock()
				if c != nil && since > hangLimit {
					err := failf("C14 hang "+c.Fn, "%s(%d-byte argument, Language(%d), n=%d) has not returned after %v", c.Fn, len(c.arg()), c.Lang, c.N, hangLimit)
					saveFailure("c14.call", c, err)
					fmt.Printf("--- FAIL: c14.call: %v\n", err)
					os.Exit(1)
				}
			}
		}()
	})
	watchdog.Lock()
	watchdog.current, watchdog.started = c, time.Now()
	watchdog.Unlock()
}

func watchStop() {
	watchdog.Lock()
	watchdog.current = nil
	watchdog.Unlock()
}

var c14Check = register("C14", "c14.call", func(c *callCase) error {
	lang := bip39.Language(c.Lang)
	if int64(lang) != c.Lang || int64(int(c.N)) != c.N {
		return nil // not representable on this platform
	}
	arg := c.arg()
	watchStart(c)
	defer watchStop()
	var p error
	switch c.Fn {
	case "NewMnemonic":
		if c.SourceFails != "" {
			prev := bip39.VerifSwapRandSource(&brokenSource{left: c.SourceAfter, err: eventErr(c.SourceFails)})
			_, _, p = implNew(int(c.N), lang)
			bip39.VerifSwapRandSource(prev)
			break
		}
		_, _, p = implNew(int(c.N), lang)
	case "NewMnemonicByEntropy":
		var e []byte
		if !c.Nil {
			e = []byte(arg)
		}
		_, _, p = implEncode(e, lang)
	case "CheckMnemonic":
		_, p = implCheck(arg, lang)
	case "IsMnemonicValid":
		_, p = implValid(arg, lang)
	case "MnemonicToSeed":
		_, p = implSeed(arg, c.pass())
	case "String":
		_, p = implString(lang)
	default:
		harnessError("c14: unknown function %q", c.Fn)
	}
	if p != nil {
		cls := "supported-lang"
		if _, ok := refLangOf(lang); !ok {
			cls = "unsupported-lang"
		}
		return failf(fmt.Sprintf("C14 panic %s %s", c.Fn, cls), "%s panicked (argument %s, Language(%d), n=%d): %v", c.Fn, short(arg), c.Lang, c.N, p)
	}
	return nil
})

const c14Rule = "C14: every exported entry point x {arbitrary byte strings incl. invalid UTF-8 and NUL, Unicode strings, empty, 1 MiB runs of combining marks, 4 MiB inputs, one token of a valid sentence replaced/prefixed/suffixed by a run (29 lengths 1..4096) of one lone invalid byte or NUL} x Language in {every value in [-300,300], integer-width boundaries, rapid Int64} x entropy {nil, every length 0..4096} x word count {boundaries, rapid Int}; NewMnemonic under sources that fail for good after k bytes with each of 18 error kinds; thorough adds two coverage-guided native fuzz targets. Oracle: the call returns (panics are recovered and reported); a call that has not returned after 120 s is a hang. Non-trivial: an unsupported language, invalid UTF-8, a rejected size, or an input > 64 KiB; distinct by the whole call"

var c14Fns = []string{"NewMnemonic", "NewMnemonicByEntropy", "CheckMnemonic", "IsMnemonicValid", "MnemonicToSeed", "String"}

func c14Record(c *callCase) {
	cov.Eval(1)
	cov.Class("fn=" + c.Fn)
	arg := c.arg()
	nt := false
	if _, ok := refLangOf(bip39.Language(c.Lang)); !ok && c.Fn != "MnemonicToSeed" {
		cov.Class("unsupported-language")
		nt = true
	}
	if c.Fn != "String" && c.Fn != "NewMnemonic" {
		if !utf8.ValidString(arg) {
			cov.Class("invalid-utf8")
			nt = true
		}
		if len(arg) > 1<<16 {
			cov.Class("over-64KiB")
			nt = true
		}
	}
	if (c.Fn == "NewMnemonic" && !ref.ValidCount(int(c.N))) || (c.Fn == "NewMnemonicByEntropy" && !ref.ValidSize(len(arg))) {
		cov.Class("rejected-size")
		nt = true
	}
	if nt {
		var b [16]byte
		binary.LittleEndian.PutUint64(b[:], uint64(c.Lang))
		binary.LittleEndian.PutUint64(b[8:], uint64(c.N))
		cov.NonTrivial("c14", []byte(c.Fn), b[:], []byte(c.Unit), []byte(fmt.Sprint(c.Times)), []byte(c.Tail), []byte(c.PassUnit))
	}
}

var intBoundaries = func() []int64 {
	var out []int64
	for _, b := range []int64{0, math.MinInt8, math.MaxInt8, math.MaxUint8, math.MinInt16, math.MaxInt16, math.MaxUint16, math.MinInt32, math.MaxInt32, math.MaxUint32, math.MinInt64, math.MaxInt64} {
		for d := int64(-2); d <= 2; d++ {
			out = append(out, b+d)
		}
	}
	return out
}()

func TestC14_Grid(t *testing.T) {
	cov.Rule(c14Rule)
	item := 0
	run := func(c *callCase) {
		item++
		if !mine(item) {
			return
		}
		c14Record(c)
		judge(t, "c14.call", c14Check, c)
	}
	valid12 := "abandon abandon abandon abandon abandon abandon abandon abandon abandon abandon abandon about"
	texts := []string{"", " ", valid12, strings.Repeat("abandon ", 26) + "about", "\xff\xfe", "\x00", "zoo\x00 zoo", strings.Repeat("zoo ", 23) + "vote", "\u3000", strings.Repeat(" ", 23)}
	langs := append([]int64{}, intBoundaries...)
	for l := int64(-300); l <= 300; l++ {
		langs = append(langs, l)
	}
	for _, l := range langs {
		run(&callCase{Fn: "String", Lang: l})
		for ti, s := range texts {
			run(&callCase{Fn: "CheckMnemonic", Lang: l, Tail: text(s)})
			if ti < 4 {
				run(&callCase{Fn: "IsMnemonicValid", Lang: l, Tail: text(s)})
			}
		}
		for _, n := range []int64{12, 24, 0, -1, 27} {
			run(&callCase{Fn: "NewMnemonic", Lang: l, N: n})
		}
		for _, sz := range []int{0, 16, 32, 33, 36} {
			run(&callCase{Fn: "NewMnemonicByEntropy", Lang: l, Unit: "\x00", Times: sz})
		}
		run(&callCase{Fn: "NewMnemonicByEntropy", Lang: l, Nil: true})
	}
	cov.Exhaustive("every Language value in [-300,300] and at the integer-width boundaries through every entry point")
	for _, n := range append(append([]int64{}, intBoundaries...), 3, 9, 27, 30, 33, 36, 48, 96, 129, 255, 256, 264) {
		for _, l := range []int64{int64(bip39.English), int64(bip39.Japanese), -1, 10} {
			run(&callCase{Fn: "NewMnemonic", Lang: l, N: n})
		}
	}
	for k := uint(8); k < 64; k++ {
		for _, m := range []int64{1, -1, 2} {
			for _, v := range []int64{12, 15, 18, 21, 24} {
				run(&callCase{Fn: "NewMnemonic", Lang: int64(bip39.English), N: v + m<<k})
			}
		}
	}
	// a randomness source that fails for good after k bytes, every error kind: the call must return
	for ki, kind := range append([]string{"EOF", "UnexpectedEOF", "custom", "EAGAIN", "timeout"}, osErrKinds...) {
		for _, n := range []int64{12, 24, 18} {
			for _, after := range []int{0, 1, int(n)/3*4 - 1} {
				run(&callCase{Fn: "NewMnemonic", Lang: int64(implLang[ref.Lang((ki+after)%int(ref.NumLangs))]), N: n, SourceFails: kind, SourceAfter: after})
			}
		}
	}
	maxLen := pick(1024, 4096)
	for sz := 0; sz <= maxLen; sz++ {
		run(&callCase{Fn: "NewMnemonicByEntropy", Lang: []int64{int64(bip39.English), int64(bip39.Korean), -1, 10}[sz%4], Unit: text([]string{"\x00", "\xff", "\x5a"}[sz%3]), Times: sz})
	}
	// word counts beyond 24 with real words (a widened gate would divide by zero or index out of range)
	for k := 0; k <= 60; k++ {
		for _, l := range []int64{int64(bip39.English), int64(bip39.Japanese), 99} {
			run(&callCase{Fn: "CheckMnemonic", Lang: l, Unit: "abandon ", Times: k, Tail: "about"})
			run(&callCase{Fn: "CheckMnemonic", Lang: l, Unit: "zoo ", Times: k, Tail: "zoo"})
		}
	}
	// entropies whose sentences have extreme byte length (the longest / shortest words of a list)
	for _, l := range allLangs() {
		for _, e := range extremeEntropies(l) {
			run(&callCase{Fn: "NewMnemonicByEntropy", Lang: int64(implLang[l]), Tail: text(e)})
		}
	}
	// code points at the edges of the blocks the lists' scripts live in, alone and inside a sentence
	for _, l := range allLangs() {
		sent := strings.Split(ref.Encode(tableEntropiesSmall(int(l)), l), l.Sep())
		for _, r := range gen.BlockEdgeRunes {
			run(&callCase{Fn: "CheckMnemonic", Lang: int64(implLang[l]), Tail: text(string(r))})
			w := append([]string(nil), sent...)
			w[3] = w[3][:len(w[3])/2] + string(r) + w[3][len(w[3])/2:]
			w[3] = strings.ToValidUTF8(w[3], "")
			run(&callCase{Fn: "IsMnemonicValid", Lang: int64(implLang[l]), Tail: text(strings.Join(w, " "))})
			w[0] = string(r) + sent[0]
			run(&callCase{Fn: "CheckMnemonic", Lang: int64(implLang[l]), Tail: text(strings.Join(w, "\u3000"))})
		}
	}
	// one token of an acceptable-count sentence replaced by / prefixed with a run of one single byte that is not
	// valid UTF-8 on its own (continuation bytes, overlong and truncated leads, surrogate leads, 0xff) or NUL:
	// code that echoes, clips, folds or re-slices an unknown token walks such runs without finding a rune start
	for li, l := range []ref.Lang{ref.Lang(0), ref.Lang(ref.NumLangs - 1), ref.Lang(ref.NumLangs / 2)} {
		sent := strings.Split(ref.Encode(tableEntropiesSmall(int(l)), l), l.Sep())
		for _, b := range []string{"\x80", "\xbf", "\xc0", "\xc2", "\xe0", "\xed", "\xf4", "\xff", "\x00"} {
			for _, n := range []int{1, 2, 3, 4, 7, 8, 15, 16, 17, 31, 32, 33, 47, 48, 49, 50, 63, 64, 65, 127, 128, 129, 255, 256, 257, 1023, 1024, 1025, 4096} {
				for _, pos := range []int{0, len(sent) / 2, len(sent) - 1} {
					w := append([]string(nil), sent...)
					w[pos] = strings.Repeat(b, n)
					run(&callCase{Fn: []string{"CheckMnemonic", "IsMnemonicValid"}[(n+pos+li)%2], Lang: int64(implLang[l]), Tail: text(strings.Join(w, " "))})
					w[pos] = strings.Repeat(b, n) + sent[pos]
					run(&callCase{Fn: "CheckMnemonic", Lang: int64(implLang[l]), Tail: text(strings.Join(w, " "))})
					w[pos] = sent[pos] + strings.Repeat(b, n)
					run(&callCase{Fn: "CheckMnemonic", Lang: int64(implLang[l]), Tail: text(strings.Join(w, " "))})
				}
			}
		}
	}
	// huge inputs
	if cfg.Shard == 0 {
		huge := []callCase{
			{Fn: "CheckMnemonic", Lang: int64(bip39.English), Unit: "\u0301", Times: 1 << 19},
			{Fn: "CheckMnemonic", Lang: int64(bip39.Japanese), Unit: "\u3099", Times: 1 << 18, Tail: " x"},
			{Fn: "CheckMnemonic", Lang: int64(bip39.English), Unit: "abandon ", Times: 1 << 19},
			{Fn: "IsMnemonicValid", Lang: int64(bip39.Korean), Unit: "\uac00", Times: 1 << 20},
			{Fn: "CheckMnemonic", Lang: int64(bip39.English), Unit: " ", Times: 1 << 22},
			{Fn: "CheckMnemonic", Lang: -7, Unit: "\xff", Times: 1 << 22},
			{Fn: "MnemonicToSeed", Unit: "\u0323\u0301", Times: 1 << 18, PassUnit: "\u0301", PassTimes: 1 << 19},
			{Fn: "MnemonicToSeed", Unit: "\xff\x00", Times: 1 << 21, PassUnit: "\xc0", PassTimes: 1 << 16},
			{Fn: "MnemonicToSeed", Unit: "\ufdfa", Times: 1 << 16, PassUnit: "\ufb03", PassTimes: 1 << 16},
			{Fn: "NewMnemonicByEntropy", Lang: int64(bip39.English), Unit: "\x00", Times: 1 << 22},
		}
		for i := range huge {
			c14Record(&huge[i])
			cov.Class("huge")
			judge(t, "c14.call", c14Check, &huge[i])
		}
	}
	cov.Sample("c14.call", callCase{Fn: "String", Lang: -1})
	cov.Sample("c14.call", callCase{Fn: "CheckMnemonic", Lang: int64(bip39.English), Unit: "abandon ", Times: 26, Tail: "about"})
}

func drawCall(rt *rapid.T) *callCase {
	c := &callCase{Fn: rapid.SampledFrom(c14Fns).Draw(rt, "fn")}
	c.Lang = rapid.OneOf(rapid.Int64Range(-3, 12), rapid.Int64Range(-300, 300), rapid.Int64(), rapid.SampledFrom(intBoundaries)).Draw(rt, "lang")
	switch c.Fn {
	case "NewMnemonic":
		c.N = rapid.OneOf(rapid.Int64Range(-5, 40), rapid.Int64(), rapid.SampledFrom(intBoundaries)).Draw(rt, "n")
	case "NewMnemonicByEntropy":
		c.Nil = rapid.IntRange(0, 20).Draw(rt, "nil") == 0
		c.Tail = text(rapid.SliceOfN(rapid.Byte(), 0, 80).Draw(rt, "entropy"))
		if rapid.IntRange(0, 4).Draw(rt, "long") == 0 {
			c.Unit, c.Times = text(rapid.SliceOfN(rapid.Byte(), 1, 4).Draw(rt, "unit")), rapid.IntRange(0, 1200).Draw(rt, "times")
		}
	case "CheckMnemonic", "IsMnemonicValid":
		switch rapid.IntRange(0, 4).Draw(rt, "text-kind") {
		case 4: // a (possibly damaged) sentence with some separators typed as compatibility spaces
			c.Tail = text(gen.Respell(gen.Defect().Draw(rt, "defect2").Text).Draw(rt, "respelled").S)
		case 0:
			c.Tail = text(gen.BString(200).Draw(rt, "bytes"))
		case 1:
			c.Tail = text(gen.Defect().Draw(rt, "defect").Text)
		case 2:
			c.Tail = text(gen.UString(12).Draw(rt, "ustr"))
		default:
			l := gen.Lang().Draw(rt, "wl")
			c.Unit = text(ref.Golden(l)[gen.Index().Draw(rt, "w")] + rapid.SampledFrom([]string{" ", "\u3000", "  ", "\t"}).Draw(rt, "sep"))
			c.Times = rapid.IntRange(0, 70).Draw(rt, "times")
			c.Tail = text(ref.Golden(l)[gen.Index().Draw(rt, "last")])
		}
	case "MnemonicToSeed":
		c.Tail = text(gen.BString(100).Draw(rt, "m"))
		c.PassUnit, c.PassTimes = text(gen.BString(40).Draw(rt, "p")), rapid.IntRange(0, 3).Draw(rt, "ptimes")
	}
	return c
}

func TestC14_Random(t *testing.T) {
	cov.Rule(c14Rule)
	k := 0
	rapidCheck(t, func(rt *rapid.T) {
		c := drawCall(rt)
		c14Record(c)
		if k++; k%499 == 1 {
			cov.Sample("c14.call", c)
		}
		judgeH(rt, "c14.call", c14Check, c, gen.Lang().Draw(rt, "history-around"))
	})
}

// FuzzC14 — coverage-guided: (data, lang, n) dispatched to every entry point.
func FuzzC14(f *testing.F) {
	cov.Rule(c14Rule)
	seeds := []struct {
		data []byte
		lang int64
		n    int64
	}{
		{[]byte("\x02check fiscal fit sword unlock rough lottery tool sting pluck bulb random"), 2, 12},
		{[]byte("\x03abandon abandon abandon abandon abandon abandon abandon abandon abandon abandon abandon about"), 2, 24},
		{[]byte("\x02" + strings.Repeat("abandon ", 26) + "about"), 2, 27},
		{[]byte("\x01" + strings.Repeat("\x00", 36)), 9, 36},
		{[]byte("\x01" + strings.Repeat("\xff", 16)), -1, -1},
		{[]byte("\x05"), -1, 0},
		{[]byte("\x05"), 9, 0},
		{[]byte("\x05"), 10, 0},
		{[]byte("\x05"), math.MinInt64, 0},
		{[]byte("\x00"), 5, 12},
		{[]byte("\x00"), math.MaxInt64, math.MaxInt64},
		{[]byte("\x04\xe3\x81\x9d\xe3\x82\x89\xe3\x81\xbe\xe3\x82\x81\xe3\x80\x80\xcc\x81\xff"), 5, 0},
		{[]byte("\x02\xe3\x81\x9d\xe3\x82\x89\xe3\x81\xbe\xe3\x82\x81\xe3\x80\x80\xe3\x81\xbb\xe3\x81\xa8\xe3\x82\x93\xe3\x81\xa9"), 5, 0},
	}
	for _, s := range seeds {
		f.Add(s.data, s.lang, s.n)
	}
	f.Fuzz(func(t *testing.T, data []byte, lang int64, n int64) {
		c := &callCase{Fn: c14Fns[0], Lang: lang, N: n}
		if len(data) > 0 {
			c.Fn = c14Fns[int(data[0])%len(c14Fns)]
			data = data[1:]
		}
		if c.Fn == "MnemonicToSeed" && len(data) > 2 {
			cut := 1 + int(data[0])%(len(data)-1)
			c.PassUnit, c.PassTimes = text(data[cut:]), 1
			data = data[1:cut]
		}
		c.Tail = text(data)
		c14Record(c)
		judge(t, "c14.call", c14Check, c)
	})
}

// c14.concurrent: "never panics" includes the failures recover() cannot stop (fatal error:
// concurrent map read and map write, all goroutines asleep). Goroutines of a freshly started
// child process call the entry points at once with arguments that take the rare paths: words in
// capitals or with a capital first letter, near-miss words, tokens of other languages, wrong
// sizes, unsupported languages. The child must finish, and no call may panic.
type concCallCase struct {
	Plan plan `json:"plan"`
}

var c14ConcCheck = register("C14", "c14.concurrent", func(c *concCallCase) error {
	r := spawnChild(&c.Plan, false)
	if r.Exit == -2 {
		return failf("C14 hang concurrent", "a fresh process whose goroutines call the API at once did not finish within 120 s: %s", describeChildFailure(r))
	}
	if r.Report == nil {
		if r.Crashed {
			return failf("C14 crash concurrent", "a fresh process whose goroutines call the API at once died: %s", describeChildFailure(r))
		}
		harnessError("c14.concurrent: child failed without a Go crash: %s", describeChildFailure(r))
	}
	for pi := range r.Report.Results {
		for gi := range r.Report.Results[pi] {
			for oi, o := range r.Report.Results[pi][gi] {
				if o.Panic == "" && strings.Contains(o.Unstable, "panic:") {
					o.Panic = o.Unstable // a repetition of the call panicked
				}
				if o.Panic != "" {
					return failf("C14 panic concurrent "+c.Plan.Phases[pi].Goroutines[gi][oi].Kind, "%s panicked while other goroutines were calling the API: %s", opString(&c.Plan.Phases[pi].Goroutines[gi][oi]), o.Panic)
				}
			}
		}
	}
	return nil
})

// caseVariant respells the words of a sentence the way keyboards and paper backups do.
func caseVariant(rt *rapid.T, words []string) string {
	w := append([]string(nil), words...)
	mode := rapid.IntRange(0, 4).Draw(rt, "case-mode")
	for i := range w {
		r := []rune(w[i])
		switch {
		case mode == 0 && i == 0, mode == 1, mode == 4 && rapid.Bool().Draw(rt, "this-word"):
			w[i] = strings.ToUpper(string(r[:1])) + string(r[1:])
		case mode == 2:
			w[i] = strings.ToUpper(w[i])
		case mode == 3 && rapid.IntRange(0, 2).Draw(rt, "damage") == 0:
			w[i] = rapid.SampledFrom([]string{w[i] + "s", string(r[:len(r)-1]), strings.ToTitle(w[i]), w[i] + "\u0301", " " + w[i]}).Draw(rt, "near-miss")
		}
	}
	return strings.Join(w, " ")
}

func TestC14_Concurrent(t *testing.T) {
	cov.Rule(c14Rule + " || concurrent variant: fresh child processes in which 4..12 goroutines call all entry points at once with capitalised / near-miss / foreign words, wrong sizes and unsupported languages; the process must finish (no fatal error, no deadlock, no hang) and no call may panic")
	k := 0
	rapidCheck(t, func(rt *rapid.T) {
		l := gen.Lang().Draw(rt, "lang")
		if rapid.Bool().Draw(rt, "cased-script") {
			l = rapid.SampledFrom([]ref.Lang{ref.English, ref.French, ref.Spanish, ref.Italian, ref.Czech, ref.Portuguese}).Draw(rt, "cased-lang")
		}
		il := int64(implLang[l])
		ng := rapid.IntRange(4, 12).Draw(rt, "goroutines")
		gs := make([][]op, ng)
		for g := range gs {
			nops := rapid.IntRange(4, 24).Draw(rt, "ops")
			for i := 0; i < nops; i++ {
				words := ref.Words(l, gen.ValidIndices().Draw(rt, "sentence"))
				var o op
				switch rapid.IntRange(0, 9).Draw(rt, "kind") {
				case 0, 1, 2, 3:
					o = op{Kind: "check", Lang: il, Text: text(caseVariant(rt, words))}
				case 4:
					o = op{Kind: "valid", Lang: il, Text: text(caseVariant(rt, words))}
				case 5:
					o = op{Kind: "check", Lang: il, Text: text(strings.Join(words, l.Sep()))}
				case 6:
					m := gen.Defect().Draw(rt, "defect")
					if len(m.Text) > 2048 {
						m.Text = m.Text[:2048]
					}
					o = op{Kind: "check", Lang: rapid.SampledFrom([]int64{il, int64(implLang[m.Lang]), -1, 10}).Draw(rt, "check-lang"), Text: text(strings.ToValidUTF8(m.Text, "?"))}
				case 7:
					ent := rapid.SliceOfN(rapid.Byte(), 0, 40).Draw(rt, "entropy")
					if rapid.Bool().Draw(rt, "valid-size") {
						ent = gen.Entropy().Draw(rt, "valid-entropy").Bytes
					}
					o = op{Kind: "encode", Lang: rapid.SampledFrom([]int64{il, il, 10, -1}).Draw(rt, "enc-lang"), Entropy: ent, ExtraCap: rapid.SampledFrom([]int{0, 8}).Draw(rt, "cap")}
				case 8:
					o = op{Kind: "new", Lang: rapid.SampledFrom([]int64{il, il, il, 10, -1, 1 << 20}).Draw(rt, "new-lang"), N: int64(rapid.SampledFrom([]int{12, 24, 15, 0, 13, -3}).Draw(rt, "n"))}
				default:
					o = op{Kind: "string", Lang: rapid.SampledFrom([]int64{il, -1, 10, 1 << 20}).Draw(rt, "string-lang")}
				}
				gs[g] = append(gs[g], o)
			}
		}
		if rapid.IntRange(0, 3).Draw(rt, "generation-hammer") == 0 {
			// every goroutine generates from the default source, several hundred calls back to back, sizes mixed
			for g := range gs {
				gs[g] = nil
				for _, n := range []int{12, 24, 18, 15, 21} {
					gs[g] = append(gs[g], op{Kind: "new", Lang: int64(implLang[ref.Lang((g+n)%int(ref.NumLangs))]), N: int64(n), Repeat: 150})
				}
			}
			cov.Class("generation-hammer")
		}
		c := &concCallCase{Plan: plan{GOMAXPROCS: rapid.SampledFrom([]int{0, 0, 2, 4, 16}).Draw(rt, "gomaxprocs"), Phases: []phase{{Goroutines: gs}}}}
		if rapid.IntRange(0, 2).Draw(rt, "hostile-env") == 0 {
			// the process environment is an input too: locale and every variable name that occurs as a
			// literal in the code under test, set to values a container or CI system really has
			val := rapid.SampledFrom([]string{"C", "POSIX", "", "fr", "en_US.UTF-8", "/dev/zero", "1", "-1", "\xff\xfe", strings.Repeat("x", 5000)}).Draw(rt, "env-value")
			for _, name := range append(envNames(), "LANG", "LC_ALL", "LC_CTYPE", "LANGUAGE", "TZ", "HOME", "TMPDIR", "GODEBUG_VERIF") {
				c.Plan.Env = append(c.Plan.Env, name+"="+val)
			}
			cov.Class("hostile-environment")
		}
		cov.Eval(1)
		cov.Class("concurrent-child")
		cov.ClassN("goroutines", ng)
		b, _ := json.Marshal(c)
		cov.NonTrivial("c14.concurrent", b)
		if k++; k%23 == 1 && ng <= 5 {
			cov.Sample("c14.concurrent", c)
		}
		judge(rt, "c14.concurrent", c14ConcCheck, c)
	})
}
