package props

import (
	"encoding/json"
	"fmt"
	"strconv"
	"strings"
	"testing"

	bip39 "github.com/islishude/bip39"
	"pgregory.net/rapid"

	"verif/harness/cov"
	"verif/harness/gen"
	"verif/harness/ref"
)

// C12 — concurrent use from a cold start is race-free and equals sequential use.

type concCase struct {
	Plan plan `json:"plan"`
}

var c12Check = register("C12", "c12.plan", func(c *concCase) error {
	p := c.Plan
	p.Solo = true
	r := spawnChild(&p, true)
	if r.RaceLog != "" || r.Exit == 66 {
		log := r.RaceLog
		if len(log) > 3500 {
			log = log[:3500] + "\u2026"
		}
		return failf("C12 data-race", "the race detector reported a data race in a fresh process running the plan:\n%s", log)
	}
	if r.Report == nil {
		if r.Crashed {
			return failf("C12 child-crash", "a fresh process running the plan died: %s", describeChildFailure(r))
		}
		harnessError("c12: child failed without a Go crash: %s", describeChildFailure(r))
	}
	rep := r.Report
	if len(rep.Results) != len(p.Phases) || len(rep.Solo) != len(p.Phases) {
		harnessError("c12: malformed child report")
	}
	for pi := range p.Phases {
		for gi := range p.Phases[pi].Goroutines {
			for oi := range p.Phases[pi].Goroutines[gi] {
				o := &p.Phases[pi].Goroutines[gi][oi]
				got := rep.Results[pi][gi][oi]
				if err := modelCheck(o, got); err != nil {
					return failf("C12 "+sigOf(err), "phase %d goroutine %d call %d (concurrent): %v", pi, gi, oi, err)
				}
				solo := rep.Solo[pi][gi][oi]
				if a, b := normalize(o, got).key(), normalize(o, solo).key(); a != b {
					return failf("C12 differs-from-solo "+o.Kind, "%s returned\n  %s when run concurrently (phase %d goroutine %d call %d), but\n  %s when run alone in the same process", opString(o), a, pi, gi, oi, b)
				}
			}
		}
	}
	if len(rep.LaterMutated) > 0 {
		return failf("C12 later-mutation", "caller-owned memory changed after the call returned: %v", rep.LaterMutated)
	}
	return nil
})

const c12Rule = "C12: rapid-generated plans, each executed in a freshly started -race build of the harness: 1..3 phases; in each, 2..16 goroutines are released together by a barrier and make 1..12 calls over all six entry points; the languages are chosen so that several goroutines make the FIRST use of the same language (cold lazy-table construction), later phases are warm; GOMAXPROCS in {1,2,4,16}, per-call yields/spins, calls repeated 20..3000 times in a row (every repetition must return the same result); fixed cold-start plans for each language and hammer plans in which 8 goroutines repeat cheap calls with different arguments thousands of times. Oracle: empty race-detector report, no panic, every observation equals the reference model and the same call's solo replay in that process. Non-trivial: >= 2 goroutines whose first validation in phase 1 targets the same language; distinct by plan"

func c12Record(c *concCase) {
	cov.Eval(1)
	ph := c.Plan.Phases[0]
	if len(ph.Goroutines) == 1 && len(c.Plan.Phases) > 1 {
		cov.Class("sequential-prelude")
		ph = c.Plan.Phases[1]
	}
	first := map[int64]int{}
	for _, g := range ph.Goroutines {
		for i := range g {
			if g[i].Kind == "check" || g[i].Kind == "valid" {
				first[g[i].Lang]++
				break
			}
		}
	}
	collide := false
	for l, n := range first {
		if n >= 2 {
			collide = true
			if rl, ok := refLangOf(bip39.Language(l)); ok {
				cov.Class("cold-collision lang=" + rl.Name())
			} else {
				cov.Class("cold-collision lang=unsupported")
			}
		}
	}
	cov.Class(fmt.Sprintf("gomaxprocs=%d", c.Plan.GOMAXPROCS))
	cov.ClassN("goroutines", len(ph.Goroutines))
	if collide {
		b, _ := json.Marshal(c)
		cov.NonTrivial("c12", b)
	} else {
		cov.Class("no-cold-collision")
	}
}

func drawConcPlan(rt *rapid.T) plan {
	pool := drawPool(rt, true)
	p := plan{GOMAXPROCS: rapid.SampledFrom([]int{1, 2, 4, 16}).Draw(rt, "gomaxprocs")}
	nph := rapid.IntRange(1, 3).Draw(rt, "phases")
	seeds := 0
	if rapid.IntRange(0, 2).Draw(rt, "prelude") == 0 {
		// a sequential prelude (one goroutine; scripted and failing sources allowed): error paths and
		// warm-up that happened before the goroutines start
		n := rapid.IntRange(1, 5).Draw(rt, "prelude-calls")
		ops := make([]op, 0, n+1)
		for i := 0; i < n; i++ {
			ops = append(ops, drawOp(rt, pool, true, false))
		}
		ops = append(ops, op{Kind: "new", N: 24, Lang: pool.langs[0], Source: []byte{1, 2, 3}}) // the source ends early
		p.Phases = append(p.Phases, phase{Goroutines: [][]op{ops}})
	}
	for ph := 0; ph < nph; ph++ {
		ng := rapid.OneOf(rapid.IntRange(2, 6), rapid.IntRange(2, 16)).Draw(rt, "goroutines")
		var gs [][]op
		for g := 0; g < ng; g++ {
			n := rapid.OneOf(rapid.IntRange(1, 4), rapid.IntRange(1, 12)).Draw(rt, "calls")
			ops := make([]op, 0, n)
			for i := 0; i < n; i++ {
				o := drawOp(rt, pool, false, seeds < 2)
				if o.Kind == "seed" {
					seeds++
				}
				if ph == 0 && i == 0 && rapid.IntRange(0, 3).Draw(rt, "cold-validate-first") > 0 {
					// make the goroutine's first call a validation, so that cold starts collide
					ti := rapid.IntRange(0, len(pool.texts)-1).Draw(rt, "text")
					o = op{Kind: rapid.SampledFrom([]string{"check", "valid"}).Draw(rt, "vkind"), Text: text(pool.texts[ti]), Lang: pool.langs[rapid.IntRange(0, len(pool.langs)-1).Draw(rt, "vlang")]}
				}
				if (o.Kind == "check" || o.Kind == "valid") && rapid.IntRange(0, 3).Draw(rt, "respell") == 0 {
					o.Text = text(gen.Respell(string(o.Text)).Draw(rt, "spelling").S) // not NFKD: goes through normalisation
				}
				if o.Kind != "seed" {
					o.Repeat = rapid.SampledFrom([]int{0, 0, 0, 0, 20, 300}).Draw(rt, "repeat")
				}
				o.Yield = rapid.SampledFrom([]int{0, 0, 0, 1, 3}).Draw(rt, "yield")
				o.Spin = rapid.SampledFrom([]int{0, 0, 100, 10000}).Draw(rt, "spin")
				ops = append(ops, o)
			}
			gs = append(gs, ops)
		}
		p.Phases = append(p.Phases, phase{Goroutines: gs})
	}
	return p
}

func TestC12_Plans(t *testing.T) {
	cov.Rule(c12Rule)
	if cfg.Shard == 0 {
		// fixed plans: for every language, 8 goroutines make the first use of it at once
		for _, l := range allLangs() {
			e := tableEntropiesSmall(int(l) + 40)
			s := ref.Encode(e, l)
			var gs [][]op
			for g := 0; g < 8; g++ {
				other := ref.Lang((int(l) + 1 + g%3) % int(ref.NumLangs))
				validate := op{Kind: []string{"check", "valid"}[g%2], Lang: int64(implLang[l]), Text: text(s)}
				rest := []op{
					{Kind: "check", Lang: int64(implLang[other]), Text: text(strings.Join(ref.Words(other, ref.Indices(e)), " "))},
					{Kind: "encode", Lang: int64(implLang[l]), Entropy: e},
					{Kind: "new", Lang: int64(implLang[l]), N: 12},
					{Kind: "string", Lang: int64(implLang[l])},
				}
				var ops []op
				if g%4 < 2 {
					ops = append([]op{validate}, rest...) // validators first
				} else {
					// generators first: these goroutines read the list while others build the lookup table
					ops = append([]op{rest[1], rest[2], rest[1]}, validate, rest[0], rest[3])
				}
				gs = append(gs, ops)
			}
			c := &concCase{Plan: plan{GOMAXPROCS: []int{16, 4, 2, 1}[int(l)%4], Phases: []phase{{Goroutines: gs}}}}
			c12Record(c)
			cov.Class("fixed-cold-start")
			judge(t, "c12.plan", c12Check, c)
		}
	}
	if cfg.Shard == 1%cfg.Shards {
		// hammer plans: goroutines repeat cheap calls with DIFFERENT arguments thousands of times, so
		// that a shared scratch value or a racy cache is overwritten mid-call even without a race report
		for round := 0; round < pick(2, 6); round++ {
			var gs [][]op
			for g := 0; g < 8; g++ {
				e := tableEntropiesSmall(round*31 + g)
				l := ref.Lang((g + round) % int(ref.NumLangs))
				lz := append([]byte{0, 0}, tableEntropiesSmall(g + 7)[2:]...) // entropy with leading zero bytes
				gs = append(gs, []op{
					{Kind: "string", Lang: int64(-1 - g - 10*round), Repeat: 3000},
					{Kind: "encode", Lang: int64(implLang[l]), Entropy: e, Repeat: 1500},
					{Kind: "check", Lang: int64(implLang[l]), Text: text(ref.Encode(lz, l)), Repeat: 600},
					{Kind: "string", Lang: int64(10 + g), Repeat: 3000},
					{Kind: "valid", Lang: int64(implLang[l]), Text: text(ref.Encode(e, l)), Repeat: 600},
					{Kind: "new", Lang: int64(implLang[l]), N: int64(ref.Counts[g%5]), Repeat: 300},
					// spellings that are not NFKD (full-width / U+3000 / NFC), a different one per goroutine
					{Kind: "check", Lang: int64(implLang[l]), Text: text(gen.FullWidth(ref.Encode(e, l))), Repeat: 400},
					{Kind: "valid", Lang: int64(implLang[l]), Text: text(gen.Forms["NFC"].String(strings.ReplaceAll(ref.Encode(lz, l), " ", "\u3000")) + "\u3000x"), Repeat: 400},
					// the neighbour's valid sentence under this goroutine's language (must stay rejected)
					{Kind: "check", Lang: int64(implLang[l]), Text: text(ref.Encode(tableEntropiesSmall(round*31+(g+1)%8), ref.Lang((g+1+round)%int(ref.NumLangs)))), Repeat: 400},
					{Kind: "seed", Text: text(ref.Encode(tableEntropiesSmall(g%2), ref.English)), Pass: text([]string{"", "TREZOR"}[g%2]), Repeat: 6},
					{Kind: "seed", Text: text(gen.FullWidth("abandon ") + strconv.Itoa(g)), Pass: "x", Repeat: 3},
					{Kind: "seed", Text: "abandon", Pass: text("\u00e9t\u00e9 \uff21\ufb01 \ud55c\uae00 " + strconv.Itoa(g)), Repeat: 4},
				})
			}
			prelude := phase{Goroutines: [][]op{{
				{Kind: "new", N: 12, Lang: int64(implLang[ref.English]), Source: []byte{9, 9, 9}},        // fails: source ends
				{Kind: "new", N: 24, Lang: int64(implLang[ref.Japanese]), Source: make([]byte, 31)},      // fails one byte short
				{Kind: "check", Lang: int64(implLang[ref.English]), Text: "not a valid sentence at all"}, // fails
			}}}
			c := &concCase{Plan: plan{GOMAXPROCS: []int{16, 4, 2, 8, 16, 3}[round], Phases: []phase{prelude, {Goroutines: gs}}}}
			c12Record(c)
			cov.Class("hammer")
			judge(t, "c12.plan", c12Check, c)
		}
	}
	k := 0
	rapidCheck(t, func(rt *rapid.T) {
		c := &concCase{Plan: drawConcPlan(rt)}
		c12Record(c)
		if k++; k%31 == 1 && len(c.Plan.Phases) == 1 && len(c.Plan.Phases[0].Goroutines) <= 3 {
			cov.Sample("c12.plan", c)
		}
		judge(rt, "c12.plan", c12Check, c)
	})
	_ = gen.Lang
}
