package props

import (
	"errors"
	"fmt"
	"io"
	"math"
	"testing"
	"time"

	bip39 "github.com/islishude/bip39"
	"pgregory.net/rapid"

	"verif/harness/cov"
	"verif/harness/gen"
	"verif/harness/ref"
)

// C09 — only the five BIP39 sizes are accepted; other sizes give the sentinel
// errors, and a rejected word count consumes no randomness.

type sizeCase struct {
	// Op: "entropy" (NewMnemonicByEntropy with Len bytes, Nil => nil slice, Extra spare capacity)
	//     "count"   (NewMnemonic(N) under a counting source)
	Op    string `json:"op"`
	Lang  int64  `json:"lang"` // implementation value, may be unsupported
	Len   int    `json:"len,omitempty"`
	Nil   bool   `json:"nil,omitempty"`
	Extra int    `json:"extra_cap,omitempty"`
	Fill  byte   `json:"fill,omitempty"`
	N     int64  `json:"n,omitempty"`
	// Content, when set, is the entropy itself (Len and Fill are ignored): text-like bytes (a hex
	// or base64 string the caller forgot to decode), entropies of extreme sentences, ...
	Content hexb   `json:"content,omitempty"`
	Shape   string `json:"shape,omitempty"`
}

// countingReader delivers a fixed byte pattern and counts how it was used.
type countingReader struct {
	calls int
	bytes int
	// eofWithData: report io.EOF in the same call that delivers the bytes (allowed by io.Reader;
	// iotest.DataErrReader behaves like this): still a working source, everything asked is delivered
	eofWithData bool
	// delay: the first Read takes this long (a slow but working source)
	delay time.Duration
}

// panickingReader panics inside Read (a faulty driver or plug-in source; callers such as
// net/http recover per request).
type panickingReader struct{}

func (panickingReader) Read([]byte) (int, error) {
	panic("verif: injected panic inside the randomness source")
}

func (r *countingReader) Read(p []byte) (int, error) {
	if r.calls == 0 && r.delay > 0 {
		time.Sleep(r.delay)
	}
	r.calls++
	for i := range p {
		p[i] = byte(0x31 + r.bytes + i)
	}
	r.bytes += len(p)
	if r.eofWithData {
		return len(p), io.EOF
	}
	return len(p), nil
}

var c09Check = register("C09", "c09.size", func(c *sizeCase) error {
	lang := bip39.Language(c.Lang)
	switch c.Op {
	case "entropy":
		var e []byte
		if c.Content != nil {
			e = append(make([]byte, 0, len(c.Content)+c.Extra), c.Content...)
		} else if !c.Nil {
			e = make([]byte, c.Len, c.Len+c.Extra)
			for i := range e {
				e[i] = c.Fill + byte(i)*c.Fill
			}
		}
		sig := fmt.Sprintf("C09 entropy len=%d", len(e))
		got, err, p := implEncode(e, lang)
		if p != nil {
			return failf(sig+" panic", "NewMnemonicByEntropy(%d bytes, Language(%d)) panicked: %v", len(e), c.Lang, p)
		}
		_, supported := refLangOf(lang)
		if !supported {
			// the property does not say what an unsupported language does to the outcome;
			// only the shape of the result is asserted
			if (err == nil) == (got == "") || (!ref.ValidSize(len(e)) && err == nil) {
				return failf(sig+" unsupported-lang", "NewMnemonicByEntropy(%d bytes, Language(%d)) = (%q, %v)", len(e), c.Lang, got, err)
			}
			return nil
		}
		if ref.ValidSize(len(e)) {
			if err != nil || got == "" {
				return failf(sig+" rejected", "NewMnemonicByEntropy(%d bytes, Language(%d)) = (%q, %v), want a non-empty mnemonic and nil", len(e), c.Lang, got, err)
			}
			return nil
		}
		if got != "" || err == nil || !errors.Is(err, bip39.ErrEntropyLen) {
			return failf(sig+" accepted", "NewMnemonicByEntropy(%d bytes, Language(%d)) = (%q, %v), want (\"\", ErrEntropyLen)", len(e), c.Lang, got, err)
		}
		return nil
	case "count":
		if int64(int(c.N)) != c.N {
			return nil
		}
		n := int(c.N)
		sig := fmt.Sprintf("C09 count n=%d", n)
		if c.Extra&2 != 0 {
			// a validation first (whatever it leaves behind must not matter to the size gate)
			implCheck("legal winner thank year wave sausage worth useful legal winner thank yellow", bip39.English)
		}
		if c.Extra&4 != 0 {
			implValid("abandon abandon abandon abandon abandon abandon abandon abandon abandon abandon abandon about", bip39.English)
			implCheck("zoo zoo zoo zoo zoo zoo zoo zoo zoo zoo zoo wrong", bip39.English)
		}
		if c.Extra&8 != 0 {
			// an earlier call whose source panicked inside Read (recovered by the caller, as a server
			// does per request): the size gate and a later working source must be unaffected
			prevP := bip39.VerifSwapRandSource(panickingReader{})
			implNew(12+3*int(c.N&3), lang)
			bip39.VerifSwapRandSource(prevP)
		}
		src := &countingReader{eofWithData: c.Extra%2 == 1}
		if c.Extra&16 != 0 {
			src.delay = time.Duration(c.Len) * time.Second // slow but working
		}
		prev := bip39.VerifSwapRandSource(src)
		type res struct {
			s   string
			err error
			p   error
		}
		done := make(chan res, 1)
		go func() {
			s, e, pp := implNew(n, lang)
			done <- res{s, e, pp}
		}()
		var got string
		var err, p error
		select {
		case r := <-done:
			got, err, p = r.s, r.err, r.p
		case <-time.After(time.Duration(c.Len)*time.Second + 90*time.Second):
			bip39.VerifSwapRandSource(prev)
			return failf(sig+" blocked", "NewMnemonic(%d, Language(%d)) with a working source did not return within %d s (after an earlier call whose source panicked: %v)", n, c.Lang, c.Len+90, c.Extra&8 != 0)
		}
		bip39.VerifSwapRandSource(prev)
		if p != nil {
			return failf(sig+" panic", "NewMnemonic(%d, Language(%d)) panicked: %v", n, c.Lang, p)
		}
		if _, supported := refLangOf(lang); !supported {
			if (err == nil) == (got == "") || (!ref.ValidCount(n) && (err == nil || src.calls != 0)) {
				return failf(sig+" unsupported-lang", "NewMnemonic(%d, Language(%d)) = (%q, %v), %d reads", n, c.Lang, got, err, src.calls)
			}
			return nil
		}
		if ref.ValidCount(n) {
			if err != nil || got == "" {
				return failf(sig+" rejected", "NewMnemonic(%d, Language(%d)) with a working source = (%q, %v), want a non-empty mnemonic and nil", n, c.Lang, got, err)
			}
			return nil
		}
		if got != "" || err == nil || !errors.Is(err, bip39.ErrWordLen) {
			return failf(sig+" accepted", "NewMnemonic(%d, Language(%d)) = (%q, %v), want (\"\", ErrWordLen)", n, c.Lang, got, err)
		}
		if src.calls != 0 {
			return failf(sig+" consumed", "NewMnemonic(%d) was rejected but read the randomness source %d time(s), %d bytes", n, src.calls, src.bytes)
		}
		return nil
	}
	harnessError("c09: unknown op %q", c.Op)
	return nil
})

const c09Rule = "C09: NewMnemonicByEntropy on nil and on every slice length of a contiguous range from 0 (content patterns, spare capacity) and a few huge lengths, on text-like contents (hex in both cases, decimal, base64, one repeated character) of every length 0..130 under all ten languages, on the entropies of every language's longest and shortest sentences; NewMnemonic on every int of a contiguous range around zero, multiples of 3 outside 12..24, the extremes of int, rapid Int draws \u2014 each under supported and unsupported languages, under a counting source installed through the verif hook, also right after a call whose source panicked inside Read, and under a slow but working source (first Read after 12 s; thorough also 35 s, 65 s). Oracle: success iff the size is one of the five, otherwise (\"\", sentinel) and zero Read calls. Non-trivial: a size other than the six lengths / six counts the suite samples (1,16,17,33 bytes; 1,12,13,25 words); distinct by (op, size, language)"

func c09Record(c *sizeCase) {
	cov.Eval(1)
	cov.Class("op=" + c.Op)
	var size int64
	if c.Op == "entropy" {
		if c.Content != nil {
			c.Len = len(c.Content)
			cov.Class("content=" + c.Shape)
		}
		size = int64(c.Len)
		if c.Nil {
			cov.Class("nil-slice")
			size = -1
		}
		if ref.ValidSize(c.Len) && !c.Nil {
			cov.Class("accepted-size")
		}
		if c.Content != nil {
			cov.NonTrivial("size-content", c.Content, []byte(fmt.Sprint(c.Lang)))
			return
		}
		if c.Len == 1 || c.Len == 16 || c.Len == 17 || c.Len == 33 {
			return
		}
	} else {
		size = c.N
		if c.N >= 12 && c.N <= 24 && ref.ValidCount(int(c.N)) {
			cov.Class("accepted-size")
		}
		if c.N < 0 {
			cov.Class("negative-count")
		}
		if c.N == 1 || c.N == 12 || c.N == 13 || c.N == 25 {
			return
		}
	}
	cov.NonTrivial("size", []byte(c.Op), []byte(fmt.Sprint(size, c.Lang)))
}

var c09Langs = []int64{int64(bip39.English), int64(bip39.Japanese), int64(bip39.Portuguese), -1, 10, 1 << 40}

func TestC09_Range(t *testing.T) {
	cov.Rule(c09Rule)
	maxLen := pick(4096, 65536)
	item := 0
	run := func(c *sizeCase) {
		item++
		if !mine(item) {
			return
		}
		c09Record(c)
		judge(t, "c09.size", c09Check, c)
	}
	run(&sizeCase{Op: "entropy", Nil: true, Lang: int64(bip39.English)})
	for n := 0; n <= maxLen; n++ {
		l := c09Langs[n%len(c09Langs)]
		if ref.ValidSize(n) || n < 64 {
			for _, l := range c09Langs {
				run(&sizeCase{Op: "entropy", Len: n, Lang: l, Fill: byte(n), Extra: n % 3})
			}
			continue
		}
		run(&sizeCase{Op: "entropy", Len: n, Lang: l, Fill: byte(n), Extra: n % 5})
	}
	cov.Exhaustive(fmt.Sprintf("every entropy length 0..%d", maxLen))
	// content that a size gate must not care about: for every length 0..130 text-like fillings
	// (hex digits in both cases, decimal digits, base64, one repeated character), under all ten
	// languages in turn; and for every language the entropies of its longest and shortest sentences
	for n := 0; n <= 130; n++ {
		for ai, alpha := range []string{"0123456789abcdef", "0123456789ABCDEF", "0123456789", "abcdefghijklmnopqrstuvwxyzABCDEFGHIJKLMNOPQRSTUVWXYZ0123456789+/", "a", "F", "0", "=", " "} {
			e := make([]byte, n)
			for i := range e {
				e[i] = alpha[(i*7+n+ai)%len(alpha)]
			}
			run(&sizeCase{Op: "entropy", Content: e, Lang: int64(implLang[ref.Lang((n+ai)%int(ref.NumLangs))]), Shape: "text-like", Extra: n % 2 * 16})
		}
	}
	for _, l := range allLangs() {
		for _, e := range extremeEntropies(l) {
			run(&sizeCase{Op: "entropy", Content: e, Lang: int64(implLang[l]), Shape: "extreme-sentence"})
		}
	}
	for _, n := range []int{1 << 20, 1<<20 + 16, 1 << 24} {
		run(&sizeCase{Op: "entropy", Len: n, Lang: int64(bip39.English)})
	}
	lim := int64(pick(4096, 1_000_000))
	for n := -lim; n <= lim; n++ {
		l := c09Langs[int(n+lim)%len(c09Langs)]
		if n >= -3 && n <= 40 {
			for _, l := range c09Langs {
				run(&sizeCase{Op: "count", N: n, Lang: l})
				run(&sizeCase{Op: "count", N: n, Lang: l, Extra: 1}) // the source reports EOF together with the data
				run(&sizeCase{Op: "count", N: n, Lang: l, Extra: 2}) // right after a validation
				run(&sizeCase{Op: "count", N: n, Lang: l, Extra: 4}) // right after other validations
			}
			continue
		}
		run(&sizeCase{Op: "count", N: n, Lang: l})
	}
	cov.Exhaustive(fmt.Sprintf("every word count in [-%d, %d]", lim, lim))
	for _, base := range []int64{math.MinInt64, math.MaxInt64, math.MinInt32, math.MaxInt32, math.MaxUint32, 1 << 31, 1 << 32, 1 << 62} {
		for d := int64(-4); d <= 4; d++ {
			run(&sizeCase{Op: "count", N: base + d, Lang: int64(bip39.English)})
		}
	}
	// counts congruent to an acceptable one modulo 2^k for every k (a scaled or narrowed check wraps there)
	for k := uint(8); k < 64; k++ {
		for _, m := range []int64{1, -1, 2, 3} {
			for _, v := range []int64{12, 15, 18, 21, 24} {
				run(&sizeCase{Op: "count", N: v + m<<k, Lang: int64(bip39.English)})
				run(&sizeCase{Op: "count", N: v*3 + m<<k, Lang: int64(bip39.Japanese)})
			}
		}
	}
	// after a call whose source panicked; and under a slow but working source
	for _, l := range c09Langs[:3] {
		for _, n := range []int64{12, 15, 18, 21, 24, 13, 0} {
			run(&sizeCase{Op: "count", N: n, Lang: l, Extra: 8})
		}
	}
	for i, sec := range []int{12, 35, 65}[:pick(1, 3)] {
		run(&sizeCase{Op: "count", N: int64(ref.Counts[i]), Lang: c09Langs[i], Extra: 16, Len: sec})
	}
	for k := int64(-30); k <= 3000; k++ {
		run(&sizeCase{Op: "count", N: 3 * k, Lang: int64(bip39.Korean)})
		run(&sizeCase{Op: "count", N: 12 + (1<<32)*k, Lang: int64(bip39.Korean)}) // equals 12 after truncation to 32 bits
	}
	cov.Sample("c09.size", sizeCase{Op: "entropy", Len: 36, Lang: int64(bip39.English)})
	cov.Sample("c09.size", sizeCase{Op: "count", N: 27, Lang: int64(bip39.English)})
}

func TestC09_Random(t *testing.T) {
	cov.Rule(c09Rule)
	rapidCheck(t, c09RandomProp)
}

var c09RandomPropK int

// c09RandomProp is the rapid property behind the test above and the native fuzz target below.
func c09RandomProp(rt *rapid.T) {
	var c *sizeCase
	lang := rapid.OneOf(rapid.Int64Range(-2, 11), rapid.Int64()).Draw(rt, "lang")
	if which := rapid.IntRange(0, 3).Draw(rt, "entropy"); which == 3 {
		// content-bearing entropies: text-like bytes of any length, structured valid entropies
		sl := int64(implLang[gen.Lang().Draw(rt, "supported-lang")])
		if rapid.Bool().Draw(rt, "text-like") {
			n := rapid.OneOf(rapid.SampledFrom([]int{32, 40, 48, 56, 64, 24, 44, 88}), rapid.IntRange(0, 130)).Draw(rt, "text-len")
			c = &sizeCase{Op: "entropy", Lang: sl, Content: gen.TextBytes(n).Draw(rt, "text"), Shape: "text-like"}
		} else {
			e := gen.Entropy().Draw(rt, "valid-entropy")
			c = &sizeCase{Op: "entropy", Lang: sl, Content: e.Bytes, Shape: e.Shape}
		}
		c.Extra = rapid.SampledFrom([]int{0, 0, 1, 64}).Draw(rt, "extra")
	} else if which >= 1 {
		c = &sizeCase{Op: "entropy", Lang: lang,
			Len:   rapid.OneOf(rapid.IntRange(0, 70), rapid.IntRange(0, 1<<16), gen.Size()).Draw(rt, "len"),
			Extra: rapid.IntRange(0, 64).Draw(rt, "extra"),
			Fill:  rapid.Byte().Draw(rt, "fill"),
		}
		if c.Len == 0 {
			c.Nil = rapid.Bool().Draw(rt, "nil")
		}
	} else {
		c = &sizeCase{Op: "count", Lang: lang,
			N: rapid.OneOf(rapid.Int64Range(-50, 50), rapid.Int64(), rapid.Int64Range(-1<<33, 1<<33)).Draw(rt, "n")}
	}
	c09Record(c)
	if c09RandomPropK++; c09RandomPropK%999 == 1 {
		cov.Sample("c09.size", c)
	}
	judgeH(rt, "c09.size", c09Check, c, gen.Lang().Draw(rt, "history-around"))
}

// FuzzC09 drives the same property coverage-guided (thorough tier): the fuzzer's bytes are
// rapid's source of choices.
func FuzzC09(f *testing.F) {
	cov.Rule(c09Rule)
	f.Fuzz(rapid.MakeFuzz(c09RandomProp))
}
