package props

import (
	"context"
	"errors"
	"fmt"
	"io"
	"io/fs"
	"os"
	"runtime"
	"strings"
	"syscall"
	"testing"

	bip39 "github.com/islishude/bip39"
	"pgregory.net/rapid"

	"verif/harness/cov"
	"verif/harness/gen"
	"verif/harness/ref"
)

// C06 — NewMnemonic returns the encoding of the first 4n/3 bytes delivered by
// the source, however fragmented; if the source fails or ends before that, it
// returns a non-nil error and the empty string.

type readEvent struct {
	K   int    `json:"k"`             // bytes offered by this Read (capped at len(p))
	GC  bool   `json:"gc,omitempty"`  // run the garbage collector before delivering (between fragments)
	Err string `json:"err,omitempty"` // "", "EOF", "UnexpectedEOF", "custom", "EAGAIN", "timeout"
}

type readerCase struct {
	Lang   string      `json:"lang"`
	N      int         `json:"n"`
	Data   hexb        `json:"data"` // the byte stream (repeated cyclically)
	Events []readEvent `json:"events"`
	Shape  string      `json:"shape,omitempty"`
	// PrimeCheck: a sentence validated (CheckMnemonic, same language) immediately before the call:
	// NewMnemonic must use the bytes its source delivers, not anything a validator left behind.
	PrimeCheck text `json:"prime_check,omitempty"`
}

var errCustom = errors.New("verif: injected source failure")

// errTimeout looks like a net/os deadline error (Timeout() and Temporary() report true).
type errTimeout struct{}

func (errTimeout) Error() string   { return "verif: injected i/o timeout" }
func (errTimeout) Timeout() bool   { return true }
func (errTimeout) Temporary() bool { return true }

func eventErr(s string) error {
	switch s {
	case "":
		return nil
	case "EOF":
		return io.EOF
	case "UnexpectedEOF":
		return io.ErrUnexpectedEOF
	case "custom":
		return errCustom
	case "EAGAIN":
		return syscall.EAGAIN // Temporary() == true: what a non-blocking descriptor returns
	case "timeout":
		return errTimeout{}
	case "ENOSYS": // getrandom(2) filtered by seccomp
		return &os.SyscallError{Syscall: "getrandom", Err: syscall.ENOSYS}
	case "ENOENT": // no /dev/urandom in a chroot
		return &fs.PathError{Op: "open", Path: "/dev/urandom", Err: syscall.ENOENT}
	case "EACCES":
		return &fs.PathError{Op: "open", Path: "/dev/urandom", Err: syscall.EACCES}
	case "EPERM":
		return syscall.EPERM
	case "EINTR":
		return syscall.EINTR
	case "EIO":
		return syscall.EIO
	case "ErrNotExist":
		return fs.ErrNotExist
	case "ErrPermission":
		return fs.ErrPermission
	case "ErrNoProgress":
		return io.ErrNoProgress
	case "ErrClosedPipe":
		return io.ErrClosedPipe
	case "deadline":
		return os.ErrDeadlineExceeded
	case "canceled":
		return context.Canceled
	case "wrapped-EOF":
		return fmt.Errorf("entropy source: %w", io.EOF)
	case "unhashable": // an error whose dynamic type cannot be a map key or be compared (a list of errors)
		return multiErr{errCustom, io.ErrUnexpectedEOF}
	case "struct-with-slice":
		return detailErr{Op: "read", Causes: []error{errCustom}}
	}
	harnessError("unknown error kind %q", s)
	return nil
}

type readCall struct {
	asked int
	data  []byte
	err   error
}

// scriptReader plays the events, then delivers whatever is asked. It never
// returns more than len(p), records every call and keeps delivering after a
// failure if it is asked again (so a retry-on-error implementation is seen).
type scriptReader struct {
	data   []byte
	off    int
	events []readEvent
	i      int
	calls  []readCall
}

func (r *scriptReader) Read(p []byte) (int, error) {
	ev := readEvent{K: len(p)}
	if r.i < len(r.events) {
		ev = r.events[r.i]
		r.i++
	}
	if ev.GC {
		runtime.GC()
		runtime.GC()
	}
	k := min(ev.K, len(p))
	if k < 0 {
		k = 0
	}
	for j := 0; j < k; j++ {
		p[j] = r.data[(r.off+j)%len(r.data)]
	}
	r.off += k
	err := eventErr(ev.Err)
	r.calls = append(r.calls, readCall{asked: len(p), data: append([]byte(nil), p[:k]...), err: err})
	if len(r.calls) > 1<<16 {
		return k, errors.New("verif: source read more than 65536 times")
	}
	return k, err
}

// osErrKinds: failures an operating-system source reports (beyond the five kinds of the grid).
// multiErr and detailErr: error values of unhashable, incomparable dynamic types.
type multiErr []error

func (m multiErr) Error() string { return fmt.Sprintf("verif: %d injected errors", len(m)) }

type detailErr struct {
	Op     string
	Causes []error
}

func (d detailErr) Error() string { return "verif: injected " + d.Op + " failure" }

var osErrKinds = []string{"unhashable", "struct-with-slice", "ENOSYS", "ENOENT", "EACCES", "EPERM", "EINTR", "EIO", "ErrNotExist", "ErrPermission", "ErrNoProgress", "ErrClosedPipe", "deadline", "canceled", "wrapped-EOF"}

func longestEmptyRun(calls []readCall) int {
	best, run := 0, 0
	for _, c := range calls {
		if len(c.data) == 0 && c.err == nil {
			run++
			best = max(best, run)
		} else {
			run = 0
		}
	}
	return best
}

var c06Check = register("C06", "c06.reader", func(c *readerCase) error {
	l := mustLang(c.Lang)
	if len(c.Data) == 0 || !ref.ValidCount(c.N) {
		harnessError("c06: bad case")
	}
	need := c.N / 3 * 4
	if c.PrimeCheck != "" {
		implCheck(string(c.PrimeCheck), implLang[l])
	}
	src := &scriptReader{data: c.Data, events: c.Events}
	prev := bip39.VerifSwapRandSource(src)
	got, err, p := implNew(c.N, implLang[l])
	bip39.VerifSwapRandSource(prev)
	sig := fmt.Sprintf("C06 reader n=%d", c.N)
	if p != nil {
		return failf(sig+" panic", "NewMnemonic(%d, %s) panicked: %v", c.N, l, p)
	}
	// what did the source deliver before (and together with) its first failure?
	var before, with []byte
	failed := false
	var firstErr error
	for _, call := range src.calls {
		if failed {
			break
		}
		if call.err != nil {
			failed, firstErr = true, call.err
			with = call.data
			break
		}
		before = append(before, call.data...)
	}
	describe := func() string {
		var b strings.Builder
		for i, call := range src.calls {
			if i == 12 {
				fmt.Fprintf(&b, " \u2026(%d calls)", len(src.calls))
				break
			}
			fmt.Fprintf(&b, " Read(%d)=(%d,%v)", call.asked, len(call.data), call.err)
		}
		return b.String()
	}
	okWith := func(d []byte) bool { return err == nil && got == ref.Encode(d[:need], l) }
	switch {
	case len(before) >= need:
		if !okWith(before) {
			return failf(sig+" success", "source delivered %x without failing [%s]; NewMnemonic(%d, %s) = (%q, %v), want the encoding of the first %d bytes: %q", before, describe(), c.N, l, got, err, need, ref.Encode(before[:need], l))
		}
	case len(before)+len(with) >= need:
		// the failure arrives together with the completing bytes: all 4n/3 bytes were delivered, the
		// source did not fail "before" that, so the first sentence of the property applies
		all := append(append([]byte(nil), before...), with...)
		if !okWith(all) {
			return failf(sig+" boundary", "source delivered all %d bytes, the last chunk together with %v [%s]; NewMnemonic(%d, %s) = (%q, %v), want the encoding of %x", need, firstErr, describe(), c.N, l, got, err, all[:need])
		}
	default:
		if !failed {
			// the source neither failed nor was read to the end
			if longestEmptyRun(src.calls) > 2 && got == "" && err != nil {
				// gave up on a source that made no progress for several reads: no sentence, an error
				cov.Class("gave-up-on-stalling-source")
				return nil
			}
			return failf(sig+" short", "NewMnemonic(%d, %s) stopped reading after %d of %d bytes without any failure [%s] and returned (%q, %v)", c.N, l, len(before), need, describe(), got, err)
		}
		if got != "" || err == nil {
			return failf(sig+" fail-open", "source failed (%v) after delivering %d of %d bytes [%s]; NewMnemonic(%d, %s) = (%q, %v), want (\"\", non-nil error)", firstErr, len(before)+len(with), need, describe(), c.N, l, got, err)
		}
	}
	if err == nil {
		if toks := strings.Split(got, l.Sep()); len(toks) != c.N {
			return failf(sig+" words", "NewMnemonic(%d, %s) returned %d words", c.N, l, len(toks))
		}
	}
	return nil
})

const c06Rule = "C06: scripted randomness sources installed through the verif hook. Complete grid: n in {12,15,18,21,24} x failure point k in 0..4n/3-1 x kind {EOF, ErrUnexpectedEOF, custom, EAGAIN (Temporary), timeout (Timeout/Temporary)} x {error alone, error together with the last partial chunk} x fragmentation {one chunk, byte-wise, fixed cuts} x 10 languages; every fragmentation class of a successful delivery (single read, byte-wise, cuts, zero-byte reads interleaved, source offering more than asked, error together with the completing bytes); 13 operating-system failure kinds (ENOSYS from getrandom, ENOENT/EACCES opening /dev/urandom, EPERM, EINTR, EIO, fs.ErrNotExist, fs.ErrPermission, io.ErrNoProgress, io.ErrClosedPipe, deadline, context.Canceled, wrapped EOF) x 4 failure points x 2; stalling sources (runs of 3..1000 empty reads before the first / last delivery: the call may give up with an error and no sentence, or deliver the right sentence); plus rapid-generated scripts, half of them run immediately after a CheckMnemonic call on an unrelated valid sentence. The source keeps delivering after a failure. Oracle: the bytes delivered up to and including the call that reports the first failure decide: >= 4n/3 => (reference encoding of the first 4n/3, nil); fewer => (\"\", non-nil). Non-trivial: a failure after >= 1 delivered byte, or >= 2 fragments; distinct by the whole script"

func c06Record(c *readerCase) {
	cov.Eval(1)
	if c.Shape != "" {
		cov.Class("shape=" + c.Shape)
	}
	fragments, failAt, delivered := 0, -1, 0
	for _, e := range c.Events {
		if e.Err != "" && failAt < 0 {
			failAt = delivered + e.K
			cov.Class("kind=" + e.Err)
			if e.K > 0 {
				cov.Class("error-with-bytes")
			}
		}
		if e.K > 0 {
			fragments++
		}
		if e.K == 0 && e.Err == "" {
			cov.Class("zero-byte-read")
		}
		delivered += e.K
	}
	if failAt > 0 || fragments >= 2 {
		cov.NonTrivial("c06", []byte(fmt.Sprintf("%s %d %v %x", c.Lang, c.N, c.Events, []byte(c.Data))))
	}
}

func c06Data(seed int) []byte {
	d := make([]byte, 67) // coprime to every chunk pattern, longer than 32
	for i := range d {
		d[i] = byte(seed*131 + i*29 + i*i*7 + 1)
	}
	return d
}

// fragment splits k bytes into events of the given style.
func fragment(k int, style string) []readEvent {
	var ev []readEvent
	switch style {
	case "one":
		if k > 0 {
			ev = append(ev, readEvent{K: k})
		}
	case "bytewise":
		for i := 0; i < k; i++ {
			ev = append(ev, readEvent{K: 1})
		}
	case "cuts":
		for left, step := k, 3; left > 0; step = step%7 + 2 {
			s := min(step, left)
			ev = append(ev, readEvent{K: s})
			left -= s
		}
	}
	return ev
}

func TestC06_Grid(t *testing.T) {
	cov.Rule(c06Rule)
	item := 0
	for _, l := range allLangs() {
		for _, n := range ref.Counts {
			need := n / 3 * 4
			for k := 0; k < need; k++ {
				for _, kind := range []string{"EOF", "UnexpectedEOF", "custom", "EAGAIN", "timeout"} {
					for _, style := range []string{"one", "bytewise", "cuts"} {
						for _, withBytes := range []bool{false, true} {
							item++
							if !mine(item) {
								continue
							}
							ev := fragment(k, style)
							if withBytes && len(ev) > 0 {
								ev[len(ev)-1].Err = kind // the last partial chunk carries the error
							} else {
								ev = append(ev, readEvent{K: 0, Err: kind})
							}
							c := &readerCase{Lang: l.Name(), N: n, Data: c06Data(item), Events: ev, Shape: "grid-failure"}
							c06Record(c)
							if item%4001 == 0 {
								cov.Sample("c06.reader", c)
							}
							judge(t, "c06.reader", c06Check, c)
						}
					}
				}
			}
			// operating-system failure kinds x a few failure points x {alone, with the last chunk}
			for _, kind := range osErrKinds {
				for _, k := range []int{0, 1, need / 2, need - 1} {
					for _, withBytes := range []bool{false, true} {
						item++
						if !mine(item) {
							continue
						}
						ev := fragment(k, "cuts")
						if withBytes && len(ev) > 0 {
							ev[len(ev)-1].Err = kind
						} else {
							ev = append(ev, readEvent{K: 0, Err: kind})
						}
						c := &readerCase{Lang: l.Name(), N: n, Data: c06Data(item), Events: ev, Shape: "grid-os-failure"}
						c06Record(c)
						judge(t, "c06.reader", c06Check, c)
					}
				}
			}
			// a stalling source: runs of (0, nil) reads before the first and before the last delivery
			for _, run := range []int{3, 99, 100, 101, 150, 1000} {
				for _, at := range []int{0, need - 5} {
					item++
					if !mine(item) {
						continue
					}
					ev := fragment(at, "cuts")
					for i := 0; i < run; i++ {
						ev = append(ev, readEvent{K: 0})
					}
					c := &readerCase{Lang: l.Name(), N: n, Data: c06Data(item), Events: ev, Shape: "grid-stall"}
					c06Record(c)
					judge(t, "c06.reader", c06Check, c)
				}
			}
			// successful deliveries in every fragmentation class
			for _, style := range []string{"one", "bytewise", "cuts", "zero-reads", "oversized", "error-with-last", "exact-then-error", "gc-between-fragments"} {
				item++
				if !mine(item) {
					continue
				}
				var ev []readEvent
				switch style {
				case "zero-reads":
					for _, e := range fragment(need, "cuts") {
						ev = append(ev, readEvent{K: 0}, e, readEvent{K: 0})
					}
				case "gc-between-fragments":
					ev = fragment(need, "cuts")
					for i := range ev {
						ev[i].GC = i > 0
					}
				case "oversized":
					ev = []readEvent{{K: 5}, {K: 1 << 20}}
				case "error-with-last":
					ev = append(fragment(need-3, "cuts"), readEvent{K: 3, Err: "EOF"})
				case "exact-then-error":
					ev = append(fragment(need, "cuts"), readEvent{K: 0, Err: "custom"})
				default:
					ev = fragment(need, style)
				}
				c := &readerCase{Lang: l.Name(), N: n, Data: c06Data(item), Events: ev, Shape: "grid-success-" + style}
				c06Record(c)
				judge(t, "c06.reader", c06Check, c)
			}
		}
	}
	cov.Exhaustive("5 counts x every failure point 0..4n/3-1 x 5 kinds x 2 (alone / with bytes) x 3 fragmentations x 10 languages")
}

func TestC06_Random(t *testing.T) {
	cov.Rule(c06Rule)
	rapidCheck(t, c06RandomProp)
}

var c06RandomPropK int

// c06RandomProp is the rapid property behind the test above and the native fuzz target below.
func c06RandomProp(rt *rapid.T) {
	l := gen.Lang().Draw(rt, "lang")
	n := gen.Count().Draw(rt, "n")
	e := gen.EntropyOfSize(n/3*4).Draw(rt, "stream-head")
	data := append(e.Bytes, rapid.SliceOfN(rapid.Byte(), 1, 9).Draw(rt, "stream-tail")...)
	ev := rapid.SliceOfN(rapid.Custom(func(t *rapid.T) readEvent {
		return readEvent{
			K:   rapid.OneOf(rapid.IntRange(0, 3), rapid.IntRange(0, 40), rapid.Just(1)).Draw(t, "k"),
			Err: rapid.SampledFrom(append([]string{"", "", "", "", "", "", "", "", "", "", "", "", "", "", "", "", "", "", "", "", "", "", "", "", "", "", "", "EOF", "UnexpectedEOF", "custom", "EAGAIN", "timeout"}, osErrKinds...)).Draw(t, "err"),
		}
	}), 0, 40).Draw(rt, "events")
	// one case in eight: a stalling source, a long run of (0, nil) reads before some delivery.
	// There an implementation may give up with an error (judged fail-closed) or keep reading; it
	// may not return a sentence built from fewer bytes than 4n/3.
	stallAt, stallLen := -1, 0
	if rapid.IntRange(0, 7).Draw(rt, "stalling") == 0 {
		stallAt = rapid.IntRange(0, len(ev)).Draw(rt, "stall-at")
		stallLen = rapid.SampledFrom([]int{3, 16, 99, 100, 101, 128, 150, 256, 1000}).Draw(rt, "stall-len")
		cov.Class("stalling-source")
	}
	// at most two empty reads in a row: (0, nil) is legal but "discouraged" by io.Reader, and an
	// implementation that gives up on a source making no progress does not break the property
	zeros := 0
	kept := ev[:0]
	for _, x := range ev {
		if x.K == 0 && x.Err == "" {
			if zeros++; zeros > 2 {
				continue
			}
		} else {
			zeros = 0
		}
		kept = append(kept, x)
	}
	ev = kept
	if stallAt >= 0 {
		stallAt = min(stallAt, len(ev))
		withStall := append([]readEvent(nil), ev[:stallAt]...)
		for i := 0; i < stallLen; i++ {
			withStall = append(withStall, readEvent{K: 0})
		}
		ev = append(withStall, ev[stallAt:]...)
	}
	c := &readerCase{Lang: l.Name(), N: n, Data: data, Events: ev, Shape: "random/" + e.Shape}
	if rapid.Bool().Draw(rt, "primed") {
		pe := gen.Entropy().Draw(rt, "prime-entropy")
		c.PrimeCheck = text(ref.Encode(pe.Bytes, l))
		cov.Class("primed-by-validation")
	}
	c06Record(c)
	if c06RandomPropK++; c06RandomPropK%997 == 1 {
		cov.Sample("c06.reader", c)
	}
	judge(rt, "c06.reader", c06Check, c)
}

// FuzzC06 drives the same property coverage-guided (thorough tier): the fuzzer's bytes are
// rapid's source of choices.
func FuzzC06(f *testing.F) {
	cov.Rule(c06Rule)
	f.Fuzz(rapid.MakeFuzz(c06RandomProp))
}

// c06.concurrent: one shared, stateless source whose behaviour depends only on the size of the
// request — 16..28-byte requests are served in full with bytes derived from the size, a 32-byte
// request gets 10 bytes and a failure. Goroutines call NewMnemonic with different counts at once:
// every 24-word call must fail closed, every other call must return the encoding of its own bytes.
type sizeSource struct{}

func sizeSourceBytes(n int) []byte {
	b := make([]byte, n)
	for i := range b {
		b[i] = byte(n*37 + i*11 + 3)
	}
	return b
}

func (sizeSource) Read(p []byte) (int, error) {
	if len(p) == 32 {
		copy(p, sizeSourceBytes(10))
		return 10, errCustom
	}
	copy(p, sizeSourceBytes(len(p)))
	return len(p), nil
}

type concReaderCase struct {
	Goroutines int    `json:"goroutines"`
	Rounds     int    `json:"rounds"`
	Lang       string `json:"lang"`
}

var c06ConcCheck = register("C06", "c06.concurrent", func(c *concReaderCase) error {
	l := mustLang(c.Lang)
	prev := bip39.VerifSwapRandSource(sizeSource{})
	defer bip39.VerifSwapRandSource(prev)
	counts := []int{12, 24, 15, 24, 18, 21, 24, 12}
	return concurrently(counts, c.Goroutines, c.Rounds, func(n *int) error {
		got, err, p := implNew(*n, implLang[l])
		sig := fmt.Sprintf("C06 reader n=%d", *n)
		if p != nil {
			return failf(sig+" panic", "NewMnemonic(%d, %s) panicked: %v", *n, l, p)
		}
		if *n == 24 {
			if got != "" || err == nil {
				return failf(sig+" fail-open", "the source failed after 10 of 32 bytes; NewMnemonic(24, %s) = (%q, %v), want (\"\", non-nil error)", l, got, err)
			}
			return nil
		}
		if want := ref.Encode(sizeSourceBytes(*n/3*4), l); err != nil || got != want {
			return failf(sig+" success", "the source delivered %x in full; NewMnemonic(%d, %s) = (%q, %v), want (%q, nil)", sizeSourceBytes(*n/3*4), *n, l, got, err, want)
		}
		return nil
	})
})

func TestC06_Concurrent(t *testing.T) {
	cov.Rule(c06Rule + " || concurrent variant: 8 goroutines call NewMnemonic with different counts at once against one stateless source that serves 16..28-byte requests in full and fails 32-byte requests after 10 bytes")
	for round := 0; round < pick(2, 10); round++ {
		c := &concReaderCase{Goroutines: 8, Rounds: pick(1500, 10000), Lang: ref.Lang(round % int(ref.NumLangs)).Name()}
		cov.Eval(8 * c.Goroutines * c.Rounds)
		cov.Class("concurrent-batch")
		cov.NonTrivial("c06.concurrent", []byte(fmt.Sprint(round, cfg.Tier)))
		judge(t, "c06.concurrent", c06ConcCheck, c)
	}
}
