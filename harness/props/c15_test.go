package props

import (
	"errors"
	"fmt"
	"strings"
	"testing"

	bip39 "github.com/islishude/bip39"
	"pgregory.net/rapid"

	"verif/harness/cov"
	"verif/harness/gen"
	"verif/harness/ref"
)

// C15 — validation errors identify the kind of failure.

type errCase struct {
	Lang string `json:"lang"`
	Text text   `json:"text"`
	// Want: "count" (only defect is the word count), "checksum" (only defect is the
	// checksum), "unknown" (acceptable count, some token not in the list), "valid".
	Want string `json:"want"`
	// Prime: a validation made immediately before (result ignored), e.g. the same sentence under
	// the language in which it is valid.
	Prime *primeCall `json:"prime,omitempty"`
	// PrimeEncode: an entropy encoded (NewMnemonicByEntropy, same language) immediately before
	PrimeEncode hexb `json:"prime_encode,omitempty"`
}

var c15Check = register("C15", "c15.error", func(c *errCase) error {
	l := mustLang(c.Lang)
	s := string(c.Text)
	toks := strings.Split(ref.NFKD(s), " ")
	// the generator's claim about the defect class is re-derived with the reference model
	class, unknown := classifyText(l, s)
	if class != c.Want {
		harnessError("c15: case built as %q is %q for the reference model: %q", c.Want, class, s)
	}
	for _, u := range unknown {
		if class == "unknown" && (u == "" || gen.HasNFKDSpace(u)) {
			harnessError("c15: unknown token %q is empty or contains white space", u)
		}
	}
	if len(c.PrimeEncode) > 0 {
		implEncode(c.PrimeEncode, implLang[l])
	}
	c.Prime.run()
	err, p := implCheck(s, implLang[l])
	sig := fmt.Sprintf("C15 %s lang=%s", c.Want, l)
	if c.Prime != nil {
		sig += " primed"
	}
	if p != nil {
		return failf(sig+" panic", "CheckMnemonic(%q, %s) panicked: %v", s, l, p)
	}
	switch c.Want {
	case "combined":
		// more than one defect (wrong count and unknown tokens, empty tokens, ...): which error is
		// returned is open, but "a nil error is returned only for valid sentences"
		if err == nil {
			return failf(sig+" nil", "CheckMnemonic(%q, %s) = nil for a sentence with several defects (%d tokens, unknown: %q)", clip(s), l, len(toks), unknown)
		}
	case "valid":
		if err != nil {
			return failf(sig, "CheckMnemonic(%q, %s) = %v for a valid sentence", s, l, err)
		}
	case "count":
		if err == nil || !errors.Is(err, bip39.ErrWordLen) {
			return failf(sig, "CheckMnemonic(%q, %s) = %v; the only defect is the word count (%d), want an error matching ErrWordLen", s, l, err, len(strings.Fields(s)))
		}
	case "checksum":
		if err == nil || !errors.Is(err, bip39.ErrChecksumIncorrect) {
			return failf(sig, "CheckMnemonic(%q, %s) = %v; the only defect is the checksum, want an error matching ErrChecksumIncorrect", s, l, err)
		}
	case "unknown":
		if err == nil {
			return failf(sig+" nil", "CheckMnemonic(%q, %s) = nil although %q is not in the list", s, l, unknown[0])
		}
		if errors.Is(err, bip39.ErrWordLen) || errors.Is(err, bip39.ErrChecksumIncorrect) || errors.Is(err, bip39.ErrEntropyLen) {
			return failf(sig+" sentinel", "CheckMnemonic(%q, %s) = %v (a sentinel) although the count is acceptable and %q is not in the list", s, l, err, unknown[0])
		}
		// a later failing validation must not rewrite the error already returned
		before := err.Error()
		implCheck("verifafter# "+s, implLang[l])
		implCheck("verifafter#"+strings.TrimPrefix(ref.NFKD(s), toks[0]), implLang[l])
		if after := err.Error(); after != before {
			return failf(sig+" error-rewritten", "the error returned by CheckMnemonic(%q, %s) read %q, but after a later failing call the same error value reads %q", s, l, before, after)
		}
		named := false
		for _, u := range unknown {
			if strings.Contains(err.Error(), u) {
				named = true
			}
		}
		if !named {
			return failf(sig+" message", "CheckMnemonic(%q, %s) = %q, which names none of the unknown tokens %q", s, l, err.Error(), unknown)
		}
	}
	return nil
})

const c15Rule = "C15: valid sentences damaged by exactly one defect class, re-classified by the reference model before use: (i) k list words for every k in 0..40 outside {12,15,18,21,24}; (ii) right count, all list words, wrong checksum (any last word / checksum bits only / leading-zero entropies with the truncated-entropy checksum); (iii) acceptable count with 1..n tokens replaced by non-empty, whitespace-free strings not in the list (words of other lists, case/affix damage, arbitrary Unicode, invalid UTF-8), checksum arbitrary; (iv) valid sentences; (vi) sentences valid in one language made only of words that another list shares (English/French, the two Chinese lists, ...), judged under one of the two languages right after the other; (v) a valid sentence judged under another language immediately after being accepted under its own (class re-derived by the reference). One case in four is written with compatibility spaces (U+00A0, U+2000..U+200A, U+202F, U+205F, U+3000) between words. Oracle: errors.Is against the sentinels; for (iii) a non-sentinel error whose message contains an unknown token. Non-trivial: classes (i)-(iii) outside English 12-word sentences; distinct by (language, text)"

func TestC15_Errors(t *testing.T) {
	cov.Rule(c15Rule)
	// (i) exhaustively: every count 0..40 in every language
	if cfg.Shard == 0 {
		for _, l := range allLangs() {
			for k := 0; k <= 40; k++ {
				if ref.ValidCount(k) {
					continue
				}
				ws := make([]string, k)
				for i := range ws {
					ws[i] = ref.Golden(l)[(i*167+k)%2048]
				}
				c := &errCase{Lang: l.Name(), Text: text(strings.Join(ws, " ")), Want: "count"}
				c15Record(c, l)
				judge(t, "c15.error", c15Check, c)
			}
		}
		// counts that equal an acceptable one modulo 2^8 or 2^16
		for li, l := range allLangs() {
			for _, k := range []int{256 + 12, 256 + 24, 512 + 15, 65536 + []int{12, 15, 18, 21, 24}[li%5]} {
				if k > 1000 && li%3 != 0 && !thorough() {
					continue
				}
				idx := gen.ExtremeIndices(l, 12, false, li)
				ws := make([]string, 0, k)
				for i := 0; i < k-12; i++ {
					ws = append(ws, ref.Golden(l)[idx[0]])
				}
				ws = append(ws, ref.Words(l, idx)...)
				c := &errCase{Lang: l.Name(), Text: text(strings.Join(ws, " ")), Want: "count"}
				c15Record(c, l)
				cov.Class("count-wraps-to-acceptable")
				judge(t, "c15.error", c15Check, c)
			}
		}
		cov.Exhaustive("word counts 0..40 outside the five acceptable ones x 10 languages")
	}
	rapidCheck(t, c15ErrorsProp)
}

func c15Record(c *errCase, l ref.Lang) {
	cov.Eval(1)
	cov.Class("want=" + c.Want)
	if c.Want == "valid" {
		return
	}
	if l == ref.English && len(strings.Fields(string(c.Text))) == 12 {
		return
	}
	cov.NonTrivial("c15", []byte(c.Lang), []byte(c.Text))
}

var c15ErrorsPropK int

// c15ErrorsProp is the rapid property behind the test above and the native fuzz target below.
func c15ErrorsProp(rt *rapid.T) {
	l := gen.Lang().Draw(rt, "lang")
	idx := gen.ValidIndices().Draw(rt, "valid")
	n := len(idx)
	golden := ref.Golden(l)
	want := rapid.SampledFrom([]string{"count", "checksum", "checksum", "unknown", "unknown", "unknown", "valid"}).Draw(rt, "want")
	var s string
	switch want {
	case "valid":
		s = strings.Join(ref.Words(l, idx), " ")
	case "count":
		cnt := rapid.IntRange(0, 40).Draw(rt, "k")
		if ref.ValidCount(cnt) {
			cnt++
		}
		ws := make([]string, cnt)
		for i := range ws {
			ws[i] = golden[gen.Index().Draw(rt, "w")]
		}
		s = strings.Join(ws, " ")
	case "checksum":
		sol := map[int]bool{}
		for _, x := range ref.SolveLast(idx[:n-1]) {
			sol[x] = true
		}
		cs := uint(n / 3)
		var last int
		if rapid.Bool().Draw(rt, "cs-bits-only") {
			last = idx[n-1]&^(1<<cs-1) | rapid.IntRange(0, 1<<cs-1).Draw(rt, "cs")
		} else {
			last = rapid.IntRange(0, 2047).Draw(rt, "last")
		}
		for sol[last] {
			last = (last + 1) % 2048
		}
		if z := rapid.IntRange(0, 3).Draw(rt, "zero-words"); z > 0 {
			// entropy with leading zero bytes: keep the prefix, re-derive a wrong last word
			for i := 0; i < 2*z && i < n-1; i++ {
				idx[i] = 0
			}
			sol = map[int]bool{}
			for _, x := range ref.SolveLast(idx[:n-1]) {
				sol[x] = true
			}
			for sol[last] {
				last = (last + 1) % 2048
			}
		}
		s = strings.Join(ref.Words(l, append(append([]int(nil), idx[:n-1]...), last)), " ")
	case "unknown":
		words := ref.Words(l, idx)
		if rapid.Bool().Draw(rt, "wrong-checksum-too") {
			words[n-1] = golden[rapid.IntRange(0, 2047).Draw(rt, "last")]
		}
		for m := rapid.IntRange(1, 3).Draw(rt, "m"); m > 0; m-- {
			p := rapid.IntRange(0, n-1).Draw(rt, "pos")
			var junk string
			switch rapid.IntRange(0, 5).Draw(rt, "junk-kind") {
			case 5: // collides with a list word of this language under a common 32-bit hash
				junk = "notaword#"
				for _, x := range gen.HaveLookalikes() {
					if x.Lang == l && rapid.Bool().Draw(rt, "this-one") {
						junk = x.Token
						cov.Class("hash-lookalike-token")
						break
					}
				}
			case 0:
				junk = ref.Golden(gen.Lang().Draw(rt, "other"))[rapid.IntRange(0, 2047).Draw(rt, "oi")]
			case 1:
				junk = strings.ToUpper(words[p])
			case 2:
				junk = words[p] + rapid.SampledFrom([]string{"s", "x", "\u0301", "\u3099", "."}).Draw(rt, "suffix")
			case 3:
				junk = gen.UString(3).Draw(rt, "ustr")
			default:
				junk = gen.BString(10).Draw(rt, "bstr")
			}
			// construction, not rejection: strip what would change the token count or make it a list word
			junk = strings.Join(strings.Fields(ref.NFKD(junk)), "#") // "#": never fuse byte fragments into a new rune
			if _, isWord := ref.WordIndex(l, ref.NFKD(junk)); isWord || junk == "" {
				junk += "#"
			}
			words[p] = junk
		}
		s = strings.Join(words, " ")
		// whole-string NFKD may differ from token-wise NFKD (a token starting with a combining
		// mark); if that changed the token structure, fall back to a plain unknown token
		if len(strings.Split(ref.NFKD(s), " ")) != n {
			words = ref.Words(l, idx)
			words[0] = "notaword#"
			s = strings.Join(words, " ")
			cov.Class("unknown-fallback")
		}
	}
	if rapid.IntRange(0, 3).Draw(rt, "compat-separators") == 0 {
		// tokens are defined on the NFKD form: any compatibility space is a separator too
		if rapid.Bool().Draw(rt, "one-kind") {
			s = strings.ReplaceAll(s, " ", string(rapid.SampledFrom(gen.NFKDSpaces).Draw(rt, "space")))
		} else {
			var b strings.Builder
			for _, r := range s {
				if r == ' ' && rapid.Bool().Draw(rt, "swap") {
					r = rapid.SampledFrom(gen.NFKDSpaces).Draw(rt, "sp")
				}
				b.WriteRune(r)
			}
			s = b.String()
		}
		cov.Class("compat-space-separators")
	}
	c := &errCase{Lang: l.Name(), Text: text(s), Want: want}
	if rapid.IntRange(0, 3).Draw(rt, "defect-program") == 0 {
		// one case in four: a sentence damaged by one of the generic defect programs (numbered
		// recovery sheets, missing separators, detached marks, giant tokens, ...), classified by the
		// reference model; with several defects at once only "not nil" is asserted
		m := gen.Defect().Draw(rt, "defect")
		class, _ := classifyText(m.Lang, m.Text)
		c = &errCase{Lang: m.Lang.Name(), Text: text(m.Text), Want: class}
		l, want = m.Lang, class
		cov.Class("defect-program=" + m.Class)
	}
	if want == "valid" && rapid.Bool().Draw(rt, "then-other-language") {
		// the sentence was just accepted under its own language; now it is judged under another
		// one, where it has unknown tokens (or, for shared words, only a checksum defect)
		l2 := gen.Lang().Draw(rt, "lang2")
		if class, _ := classifyText(l2, s); class != "combined" && l2 != l {
			c = &errCase{Lang: l2.Name(), Text: text(s), Want: class, Prime: &primeCall{Lang: l.Name(), Text: text(s)}}
			l = l2
			cov.Class("primed-by-valid-under-other-language")
		}
	}
	if rapid.IntRange(0, 9).Draw(rt, "shared-words") == 0 {
		// a sentence valid in A made only of words that B's list also contains, judged under A
		// right after being judged under B (and the other way round)
		pairs := gen.SharedPairs()
		pr := pairs[rapid.IntRange(0, len(pairs)-1).Draw(rt, "pair")]
		if idx := gen.SharedWordSentence(pr[0], pr[1]).Draw(rt, "shared"); idx != nil {
			s2 := strings.Join(ref.Words(pr[0], idx), " ")
			judgedUnder, primeUnder := pr[0], pr[1]
			if rapid.Bool().Draw(rt, "judge-under-b") {
				judgedUnder, primeUnder = pr[1], pr[0]
			}
			if class, _ := classifyText(judgedUnder, s2); class != "combined" {
				c = &errCase{Lang: judgedUnder.Name(), Text: text(s2), Want: class, Prime: &primeCall{Lang: primeUnder.Name(), Text: text(s2)}}
				l = judgedUnder
				cov.Class("shared-word-sentence")
			}
		}
	}
	if rapid.IntRange(0, 2).Draw(rt, "after-encode") == 0 {
		c.PrimeEncode = gen.Entropy().Draw(rt, "prime-entropy").Bytes
		cov.Class("after-encode")
	}
	c15Record(c, l)
	if c15ErrorsPropK++; c15ErrorsPropK%499 == 1 {
		cov.Sample("c15.error", c)
	}
	judgeH(rt, "c15.error", c15Check, c, l)
}

// FuzzC15 drives the same property coverage-guided (thorough tier): the fuzzer's bytes are
// rapid's source of choices.
func FuzzC15(f *testing.F) {
	cov.Rule(c15Rule)
	f.Fuzz(rapid.MakeFuzz(c15ErrorsProp))
}

// TestC15_WordSweep: every list word of every language inside one checksum-only-defect sentence
// and one valid sentence (a list entry that moved, or was re-spelled, changes which of the two the
// validator calls valid).
func TestC15_WordSweep(t *testing.T) {
	cov.Rule(c15Rule + " || word sweep: all 10 x 2048 list words, each inside two valid 12..24-word sentences and two sentences whose only defect is the checksum")
	item := 0
	for _, l := range allLangs() {
		for i := 0; i < 2048; i++ {
			item++
			if !mine(item) {
				continue
			}
			n := ref.Counts[(i+int(l))%5]
			prefix := make([]int, n-1)
			for j := range prefix {
				prefix[j] = (i*7 + j*131 + 3) % 2048
			}
			prefix[i%(n-1)] = i
			sol := ref.SolveLast(prefix)
			isSol := map[int]bool{}
			for _, x := range sol {
				isSol[x] = true
			}
			for k := 0; k < 2; k++ {
				good := append(append([]int(nil), prefix...), sol[(i+k*5)%len(sol)])
				c := &errCase{Lang: l.Name(), Text: text(strings.Join(ref.Words(l, good), " ")), Want: "valid"}
				c15Record(c, l)
				judge(t, "c15.error", c15Check, c)
				bad := (sol[(i+k*3)%len(sol)] + 1 + k) % 2048
				for isSol[bad] {
					bad = (bad + 1) % 2048
				}
				c = &errCase{Lang: l.Name(), Text: text(strings.Join(ref.Words(l, append(append([]int(nil), prefix...), bad)), " ")), Want: "checksum"}
				c15Record(c, l)
				cov.Class("word-sweep")
				judge(t, "c15.error", c15Check, c)
			}
		}
	}
	cov.Exhaustive("all 10 x 2048 list words inside valid and checksum-only-defect sentences")
}
