package props

import (
	"encoding/binary"
	"math"
	"strconv"
	"testing"

	bip39 "github.com/islishude/bip39"
	"pgregory.net/rapid"

	"verif/harness/cov"
	"verif/harness/gen"
	"verif/harness/ref"
)

// C16 — Language.String() returns the declared identifier of each supported
// language and "Language(N)" for every other value N.

type c16Case struct {
	N int64 `json:"n"`
}

// declaredNames refers to the implementation's constants by identifier.
var declaredNames = map[bip39.Language]string{
	bip39.ChineseSimplified:  "ChineseSimplified",
	bip39.ChineseTraditional: "ChineseTraditional",
	bip39.English:            "English",
	bip39.French:             "French",
	bip39.Italian:            "Italian",
	bip39.Japanese:           "Japanese",
	bip39.Korean:             "Korean",
	bip39.Spanish:            "Spanish",
	bip39.Czech:              "Czech",
	bip39.Portuguese:         "Portuguese",
}

func c16Want(n int64) string {
	if name, ok := declaredNames[bip39.Language(n)]; ok {
		return name
	}
	return "Language(" + strconv.FormatInt(n, 10) + ")"
}

var c16Check = register("C16", "c16.string", func(c *c16Case) error {
	if int64(bip39.Language(c.N)) != c.N {
		return nil // not representable as Language on this platform
	}
	l := bip39.Language(c.N)
	got, p := implString(l)
	_, supported := declaredNames[l]
	cls := "unsupported"
	if supported {
		cls = "supported"
	}
	if p != nil {
		return failf("C16 String panic "+cls+" lang="+strconv.FormatInt(c.N, 10), "Language(%d).String() panicked: %v", c.N, p)
	}
	want := c16Want(c.N)
	if got != want {
		return failf("C16 String "+cls+" lang="+strconv.FormatInt(c.N, 10), "Language(%d).String() = %q, want %q", c.N, got, want)
	}
	// the returned string must stay what it was when other values are printed afterwards
	implString(bip39.Language(c.N + 1))
	implString(bip39.Language(-c.N - 77))
	if got != want {
		return failf("C16 String retained "+cls, "the string returned by Language(%d).String() read %q when returned and reads %q after later String() calls", c.N, want, got)
	}
	return nil
})

func c16Record(n int64) {
	cov.Eval(1)
	switch {
	case n < 0:
		cov.Class("negative")
	case n < int64(len(declaredNames)):
		cov.Class("supported")
	default:
		cov.Class("beyond-last")
	}
	// non-trivial: any value outside the nine constants and 10000 the suite lists
	if n == 10000 || (n >= 0 && n <= 8) {
		return
	}
	var b [8]byte
	binary.LittleEndian.PutUint64(b[:], uint64(n))
	cov.NonTrivial("c16", b[:])
}

const c16Rule = "C16: every integer of a contiguous range around zero, the boundaries of int8..int64 (\u00b12), values whose product with a small odd record size wraps back into a small range, and rapid Int64 draws, each through Language(N).String() against the declared identifier / \"Language(N)\"; non-trivial = a distinct N other than the ten values the suite's table lists (0..8 and 10000)"

func TestC16_Range(t *testing.T) {
	cov.Rule(c16Rule)
	if len(declaredNames) != int(ref.NumLangs) {
		harnessError("C16: %d declared names", len(declaredNames))
	}
	// other entry points used first, with unsupported languages too: names must not depend on it
	for _, l := range []bip39.Language{99, -1, bip39.English, 10} {
		implCheck("abandon abandon abandon abandon abandon abandon abandon abandon abandon abandon abandon about", l)
		implValid("zoo zoo zoo", l)
		implEncode(make([]byte, 16), l)
	}
	seen := map[string]bool{}
	for l, name := range declaredNames {
		got, p := implString(l)
		if p == nil && got == name {
			if seen[got] {
				t.Fatalf("name %q used twice", got)
			}
			seen[got] = true
		}
	}
	lim := int64(pick(100_000, 1<<24))
	for n := -lim; n <= lim; n++ {
		if !mine(int(n + lim)) {
			continue
		}
		c16Record(n)
		judge(t, "c16.string", c16Check, &c16Case{N: n})
		if n%5 == 0 {
			// revisit a value printed thousands of distinct values ago
			back := n - 7000*int64(cfg.Shards)
			if back >= -lim {
				cov.Eval(1)
				cov.Class("revisit")
				judge(t, "c16.string", c16Check, &c16Case{N: back})
			}
		}
	}
	cov.Exhaustive("every Language value in [-" + strconv.FormatInt(lim, 10) + ", " + strconv.FormatInt(lim, 10) + "]")
	// scaled-offset wrap: values N for which N*m (m a small odd record size) wraps around 2^64 back
	// into a small range: N = q + r*inverse(m) mod 2^64
	if cfg.Shard == 0 {
		for m := uint64(3); m < 256; m += 2 {
			inv := m // Newton iteration for the inverse of m modulo 2^64
			for i := 0; i < 6; i++ {
				inv *= 2 - m*inv
			}
			for r := uint64(1); r < m && r <= 24; r++ {
				for q := uint64(0); q < 12; q++ {
					n := int64(q + r*inv)
					c16Record(n)
					cov.Class("multiplicative-wrap")
					judge(t, "c16.string", c16Check, &c16Case{N: n})
				}
			}
		}
	}
	cov.Sample("c16.string", c16Case{N: 9})
	cov.Sample("c16.string", c16Case{N: -1})
	if cfg.Shard == 0 {
		for _, base := range []int64{math.MinInt8, math.MaxInt8, math.MaxUint8, math.MinInt16, math.MaxInt16, math.MaxUint16, math.MinInt32, math.MaxInt32, math.MaxUint32, math.MinInt64, math.MaxInt64} {
			for d := int64(-2); d <= 2; d++ {
				n := base + d // wraps at the int64 extremes, which is fine: still an int64
				c16Record(n)
				cov.Class("boundary")
				judge(t, "c16.string", c16Check, &c16Case{N: n})
			}
		}
	}
}

func TestC16_Random(t *testing.T) {
	cov.Rule(c16Rule)
	first := true
	rapidCheck(t, func(rt *rapid.T) {
		n := rapid.OneOf(rapid.Int64(), rapid.Int64Range(-64, 64), rapid.Int64Range(-1<<33, 1<<33)).Draw(rt, "n")
		c := &c16Case{N: n}
		c16Record(n)
		if first {
			cov.Sample("c16.string", c)
			first = false
		}
		judgeH(rt, "c16.string", c16Check, c, gen.Lang().Draw(rt, "history-around"))
	})
}

// c16.cold-concurrent: the very first String() calls of a freshly started process, made by
// several goroutines at once (a name table that is unpacked lazily shows here).
var c16ColdConcCheck = register("C16", "c16.cold-concurrent", coldConcCheck("C16"))

func TestC16_ColdConcurrent(t *testing.T) {
	cov.Rule(c16Rule + " || and in freshly started processes whose 10..16 goroutines call String() at once as their very first calls (all ten supported values, and unsupported neighbours)")
	for round := 0; round < pick(12, 120); round++ {
		if !mine(round) {
			continue
		}
		ng := 10 + round%7
		gs := make([][]op, ng)
		for g := range gs {
			for k := 0; k < 3; k++ {
				v := int64((g + k*3 + round) % 10)
				if g >= 10 && k == 1 {
					v = []int64{-1, 10, 11, -2, 255, 1 << 32}[(g+round)%6]
				}
				gs[g] = append(gs[g], op{Kind: "string", Lang: v})
			}
		}
		c := &concCallCase{Plan: plan{GOMAXPROCS: []int{0, 2, 4, 16, 3}[round%5], Phases: []phase{{Goroutines: gs}}}}
		cov.Eval(ng * 3)
		cov.Class("cold-concurrent-first-use")
		cov.NonTrivial("c16.cold-concurrent", []byte{byte(round)})
		if round == 0 {
			cov.Sample("c16.cold-concurrent", c)
		}
		judge(t, "c16.cold-concurrent", c16ColdConcCheck, c)
	}
}
