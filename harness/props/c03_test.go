package props

import (
	"fmt"
	"strings"
	"testing"

	"pgregory.net/rapid"

	"verif/harness/cov"
	"verif/harness/gen"
	"verif/harness/ref"
)

// C03 — validation never accepts an ill-formed or wrong-checksum mnemonic;
// IsMnemonicValid is true exactly when CheckMnemonic returns nil; for any fixed
// first n-1 words exactly 2^(11-n/3) final words are accepted.

type textCase struct {
	Lang  string `json:"lang"`
	Text  text   `json:"text"`
	Class string `json:"class,omitempty"`
	Desc  string `json:"desc,omitempty"`
	// Prime: a validation made immediately before (its result is ignored): a validator that
	// remembers its last verdict without the language, or re-uses a scratch buffer, shows here.
	Prime *primeCall `json:"prime,omitempty"`
}

type primeCall struct {
	Lang string `json:"lang"`
	Text text   `json:"text"`
}

func (p *primeCall) run() {
	if p != nil {
		implCheck(string(p.Text), implLang[mustLang(p.Lang)])
	}
}

// verdict calls both validators and checks that they agree.
func verdict(sigPrefix string, s string, l ref.Lang) (accepted bool, err error) {
	cerr, p := implCheck(s, implLang[l])
	if p != nil {
		return false, failf(sigPrefix+" panic", "CheckMnemonic(%q, %s) panicked: %v", s, l, p)
	}
	ok, p := implValid(s, implLang[l])
	if p != nil {
		return false, failf(sigPrefix+" panic", "IsMnemonicValid(%q, %s) panicked: %v", s, l, p)
	}
	if ok != (cerr == nil) {
		return false, failf(sigPrefix+" IsMnemonicValid-disagrees", "IsMnemonicValid(%q, %s) = %v but CheckMnemonic returned %v", s, l, ok, cerr)
	}
	return cerr == nil, nil
}

var c03TextCheck = register("C03", "c03.text", func(c *textCase) error {
	l := mustLang(c.Lang)
	s := string(c.Text)
	sig := fmt.Sprintf("C03 accept lang=%s class=%s", l, c.Class)
	c.Prime.run()
	accepted, err := verdict(sig, s, l)
	if err != nil {
		return err
	}
	if accepted && !ref.FieldsValid(l, s) {
		toks := strings.Fields(ref.NFKD(s))
		return failf(sig, "CheckMnemonic accepts %q under %s, which is not a valid mnemonic (%d tokens; %s)", s, l, len(toks), whyInvalid(l, toks))
	}
	return nil
})

func whyInvalid(l ref.Lang, toks []string) string {
	if !ref.ValidCount(len(toks)) {
		return "bad word count"
	}
	idx, ok := ref.TokensIndices(l, toks)
	if !ok {
		for _, t := range toks {
			if _, found := ref.WordIndex(l, t); !found {
				return fmt.Sprintf("token %q is not in the list", t)
			}
		}
	}
	e, cs := ref.Unpack(idx)
	return fmt.Sprintf("entropy %x has checksum %d, sentence carries %d", e, ref.ChecksumOf(e), cs)
}

type scanCase struct {
	Lang   string `json:"lang"`
	Prefix []int  `json:"prefix"`
}

var c03ScanCheck = register("C03", "c03.scan", func(c *scanCase) error {
	l := mustLang(c.Lang)
	n := len(c.Prefix) + 1
	golden := ref.Golden(l)
	head := strings.Join(ref.Words(l, c.Prefix), " ") + " "
	sol := map[int]bool{}
	for _, s := range ref.SolveLast(c.Prefix) {
		sol[s] = true
	}
	sig := fmt.Sprintf("C03 scan lang=%s n=%d", l, n)
	accepted := 0
	for x := 0; x < 2048; x++ {
		s := head + golden[x]
		ok, err := verdict(sig, s, l)
		if err != nil {
			return err
		}
		if ok {
			accepted++
		}
		if ok && !sol[x] {
			e, cs := ref.Unpack(append(append([]int(nil), c.Prefix...), x))
			return failf(sig+" accepts-wrong-checksum", "CheckMnemonic accepts %q under %s: entropy %x has checksum %d, the sentence carries %d", s, l, e, ref.ChecksumOf(e), cs)
		}
		if !ok && sol[x] {
			return failf(sig+" rejects-valid", "CheckMnemonic rejects the valid sentence %q under %s", s, l)
		}
	}
	if accepted != 1<<uint(11-n/3) {
		return failf(sig+" count", "%d final words accepted after %q, want %d", accepted, head, 1<<uint(11-n/3))
	}
	return nil
})

type substCase struct {
	Lang    string `json:"lang"`
	Indices []int  `json:"indices"`
	Pos     int    `json:"pos"`
}

var c03SubstCheck = register("C03", "c03.subst", func(c *substCase) error {
	l := mustLang(c.Lang)
	if !ref.IndicesValid(c.Indices) {
		harnessError("c03.subst: base sentence is not valid")
	}
	idx := append([]int(nil), c.Indices...)
	sig := fmt.Sprintf("C03 subst lang=%s n=%d", l, len(idx))
	for x := 0; x < 2048; x++ {
		idx[c.Pos] = x
		s := strings.Join(ref.Words(l, idx), " ")
		ok, err := verdict(sig, s, l)
		if err != nil {
			return err
		}
		want := ref.IndicesValid(idx)
		if ok && !want {
			return failf(sig+" accepts-wrong-checksum", "CheckMnemonic accepts %q under %s (word %d substituted by index %d): wrong checksum", s, l, c.Pos, x)
		}
		if !ok && want {
			return failf(sig+" rejects-valid", "CheckMnemonic rejects the valid sentence %q under %s", s, l)
		}
	}
	return nil
})

const c03Rule = "C03: (a) accept-set scans: generated prefixes of n-1 words (including all-index-0, all-index-2047 and leading-index<8 prefixes) x all 2048 final words, accepted set must be exactly the reference's 2^(11-n/3) solutions; (b) generated valid sentences with all 2048 substitutions at a generated position; (c) defect-mutated sentences (substitution, transposition, counts 0..40, foreign-list words, case/affix damage, junk tokens, separator damage, checksum-only flips, leading-zero-byte entropies carrying the checksum of the truncated entropy); (d) arbitrary Unicode and byte strings. Oracle for (c),(d), one-directional as stated: accepted => strings.Fields(NFKD(s)) are 12..24 golden words with the reference checksum; and IsMnemonicValid == (CheckMnemonic == nil) always. Non-trivial: a scan/substitution sweep, or a text the reference calls invalid that is not an English 12-word sentence (the suite's four negatives are); distinct by (kind, language, text)"

func c03RecordText(c *textCase, l ref.Lang) {
	cov.Eval(1)
	cov.Class("class=" + c.Class)
	s := string(c.Text)
	if ref.FieldsValid(l, s) {
		cov.Class("ref-valid")
		return
	}
	cov.Class("ref-invalid")
	if l == ref.English && len(strings.Fields(s)) == 12 {
		return
	}
	cov.NonTrivial("c03.text", []byte(c.Lang), []byte(s))
}

func TestC03_Scan(t *testing.T) {
	cov.Rule(c03Rule)
	// fixed prefixes: all index 0, all index 2047, every language and count
	item := 0
	for _, l := range allLangs() {
		for _, n := range ref.Counts {
			fills := []int{0, 2047}
			if thorough() {
				fills = []int{0, 2047, 1, 7, 8, 1024}
			}
			for _, fill := range fills {
				item++
				if !mine(item) {
					continue
				}
				prefix := make([]int, n-1)
				for i := range prefix {
					prefix[i] = fill
				}
				c := &scanCase{Lang: l.Name(), Prefix: prefix}
				cov.Eval(2048)
				cov.Class("scan-fixed")
				cov.NonTrivial("c03.scan", []byte(c.Lang), []byte(fmt.Sprint(prefix)))
				judge(t, "c03.scan", c03ScanCheck, c)
			}
		}
	}
	k := 0
	rapidCheck(t, func(rt *rapid.T) {
		l := gen.Lang().Draw(rt, "lang")
		if rapid.Bool().Draw(rt, "scan") {
			n := gen.Count().Draw(rt, "n")
			prefix := rapid.SliceOfN(gen.Index(), n-1, n-1).Draw(rt, "prefix")
			if z := rapid.IntRange(0, 4).Draw(rt, "zero-words"); z > 0 {
				for i := 0; i < z && i < len(prefix); i++ {
					prefix[i] = 0
				}
				prefix[min(z, len(prefix)-1)] &= 0x7
			}
			c := &scanCase{Lang: l.Name(), Prefix: prefix}
			cov.Eval(2048)
			cov.Class(fmt.Sprintf("scan n=%d", n))
			cov.NonTrivial("c03.scan", []byte(c.Lang), []byte(fmt.Sprint(prefix)))
			if k++; k%37 == 1 {
				cov.Sample("c03.scan", c)
			}
			judge(rt, "c03.scan", c03ScanCheck, c)
			return
		}
		idx := gen.ValidIndices().Draw(rt, "valid")
		c := &substCase{Lang: l.Name(), Indices: idx, Pos: rapid.IntRange(0, len(idx)-1).Draw(rt, "pos")}
		cov.Eval(2048)
		cov.Class(fmt.Sprintf("subst n=%d", len(idx)))
		cov.NonTrivial("c03.subst", []byte(c.Lang), []byte(fmt.Sprint(idx, c.Pos)))
		if k++; k%37 == 2 {
			cov.Sample("c03.subst", c)
		}
		judge(rt, "c03.subst", c03SubstCheck, c)
	})
}

func TestC03_Mutated(t *testing.T) {
	cov.Rule(c03Rule)
	k := 0
	rapidCheck(t, func(rt *rapid.T) {
		var c *textCase
		var l ref.Lang
		if rapid.IntRange(0, 9).Draw(rt, "arbitrary") == 0 {
			l = gen.Lang().Draw(rt, "lang")
			s := rapid.OneOf(gen.UString(10), gen.BString(64)).Draw(rt, "text")
			c = &textCase{Lang: l.Name(), Text: text(s), Class: "arbitrary"}
		} else {
			m := gen.Defect().Draw(rt, "mutated")
			l = m.Lang
			c = &textCase{Lang: l.Name(), Text: text(m.Text), Class: m.Class, Desc: m.Desc}
			if rapid.IntRange(0, 3).Draw(rt, "other-lang") == 0 {
				// the same text under another language must not be accepted either (unless valid there)
				home := l
				l = gen.Lang().Draw(rt, "lang2")
				c.Lang = l.Name()
				c.Class += "+other-lang"
				if rapid.Bool().Draw(rt, "primed") {
					c.Prime = &primeCall{Lang: home.Name(), Text: c.Text}
					c.Class += "+primed"
				}
			}
		}
		c03RecordText(c, l)
		if k++; k%397 == 1 {
			cov.Sample("c03.text", c)
		}
		judgeH(rt, "c03.text", c03TextCheck, c, l)
	})
}
