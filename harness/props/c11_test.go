package props

import (
	"bytes"

	"fmt"
	bip39 "github.com/islishude/bip39"
	"strings"
	"testing"
	"unicode/utf8"

	"pgregory.net/rapid"

	"verif/harness/cov"
	"verif/harness/gen"
	"verif/harness/ref"
)

// C11 — MnemonicToSeed returns the same 64 bytes for any two (mnemonic,
// passphrase) pairs whose components have equal NFKD forms.

type equivSeedCase struct {
	M      text   `json:"mnemonic"`
	P      text   `json:"passphrase"`
	M2     text   `json:"mnemonic2"`
	P2     text   `json:"passphrase2"`
	Method string `json:"method,omitempty"`
}

var c11Check = register("C11", "c11.equiv", func(c *equivSeedCase) error {
	m, p, m2, p2 := string(c.M), string(c.P), string(c.M2), string(c.P2)
	if ref.NFKD(m) != ref.NFKD(m2) || ref.NFKD(p) != ref.NFKD(p2) {
		harnessError("c11: the two spellings are not NFKD-equal")
	}
	// the flow wallets use: validate, then derive — a sentence that was just rejected (or accepted)
	// must still derive the seed of its own NFKD form
	implCheck("legal winner thank year wave sausage worth useful legal winner thank yellow", bip39.English)
	implCheck(m, bip39.English)
	implCheck(m2, bip39.Japanese)
	a, pa := implSeed(m, p)
	// the caller wipes the first seed (key material) before deriving from the other spelling:
	// the returned slice is the caller's
	held := a
	a = append([]byte(nil), a...)
	for i := range held[:cap(held)] {
		held[:cap(held)][i] = 0
	}
	b, pb := implSeed(m2, p2)
	sig := "C11 seed-equiv " + c.Method
	if pa != nil || pb != nil {
		return failf(sig+" panic", "MnemonicToSeed panicked: %v %v", pa, pb)
	}
	if len(a) > 0 && len(b) > 0 && &held[0] == &b[0] {
		return failf(sig+" aliased", "MnemonicToSeed returned the same memory for (%+q, %+q) and then for (%+q, %+q): a caller wiping one seed destroys the other", clip(m), clip(p), clip(m2), clip(p2))
	}
	if !bytes.Equal(a, b) {
		return failf(sig, "MnemonicToSeed gives different seeds for NFKD-equal spellings (%s):\n  (%+q, %+q) -> %x\n  (%+q, %+q) -> %x", c.Method, clip(m), clip(p), a, clip(m2), clip(p2), b)
	}
	if want := ref.Seed(m, p); !bytes.Equal(a, want) {
		return failf(sig+" anchor", "MnemonicToSeed(%+q, %+q) = %x, BIP39 says %x", clip(m), clip(p), a, want)
	}
	// and once more in the first spelling after the caller overwrote the second result
	for i := range b {
		b[i] ^= 0xff
	}
	if a2, pa2 := implSeed(m, p); pa2 != nil || !bytes.Equal(a2, a) {
		return failf(sig+" repeat", "MnemonicToSeed(%+q, %+q) returned %x at first and %x (panic=%v) after the caller had overwritten the seeds returned earlier for this pair and its respelling", clip(m), clip(p), a, a2, pa2)
	}
	return nil
})

func clip(s string) string {
	if len(s) > 400 {
		for i := 400; i > 0; i-- {
			if utf8.RuneStart(s[i]) {
				return s[:i] + "\u2026"
			}
		}
	}
	return s
}

const c11Rule = "C11: (a) word sweep \u2014 all 10 x 2048 list words, 24 per valid sentence, each sentence respelled in NFC, NFD, NFKC, NFKD and full-width, with U+0020 and with U+3000 between words, against the canonical spelling; (b) rapid pairs (mnemonic, passphrase) from the C04 generator respelled by whole-string forms, per-token forms, NFKD-space substitution and inverse-NFKD substitution (runes that decompose to a substring: compatibility ideographs, ligatures, Hangul syllables, precomposed letters, ...). Oracle: seeds equal, and equal to the reference PBKDF2 value; the caller wipes each returned seed before the next call (returned slices are the caller's), and the first spelling is derived once more at the end. Non-trivial: the two spellings differ bytewise; distinct by (m, p, m2, p2)"

func c11Record(c *equivSeedCase) {
	cov.Eval(1)
	cov.Class("method=" + c.Method)
	if string(c.M) != string(c.M2) || string(c.P) != string(c.P2) {
		cov.NonTrivial("c11", []byte(c.M), []byte(c.P), []byte(c.M2), []byte(c.P2))
	} else {
		cov.Class("identical-spelling")
	}
}

func TestC11_WordSweep(t *testing.T) {
	cov.Rule(c11Rule)
	item := 0
	seenWords := 0
	for _, l := range allLangs() {
		for base := 0; base < 2048; base += 23 {
			item++
			if !mine(item) {
				continue
			}
			prefix := make([]int, 23)
			for i := range prefix {
				prefix[i] = (base + i) % 2048
			}
			sol := ref.SolveLast(prefix)
			idx := append(prefix, sol[base%len(sol)])
			words := ref.Words(l, idx)
			seenWords += 23
			canonical := strings.Join(words, " ")
			pass := "\u00e9\u3099\uff21 " + l.Name()
			done := map[string]bool{canonical: true}
			for _, sep := range []string{" ", "\u3000"} {
				joined := strings.Join(words, sep)
				variants := map[string]string{"fullwidth": gen.FullWidth(joined)}
				for name, f := range gen.Forms {
					variants[name] = f.String(joined)
				}
				for _, name := range append(append([]string(nil), gen.FormNames...), "fullwidth") {
					v := variants[name]
					if done[v] {
						continue
					}
					done[v] = true
					method := name
					if sep != " " {
						method += "+U+3000"
					}
					c := &equivSeedCase{M: text(canonical), P: text(pass), M2: text(v), P2: text(gen.Forms["NFC"].String(pass)), Method: method}
					c11Record(c)
					cov.Class("lang=" + l.Name())
					if base == 46 {
						cov.Sample("c11.equiv", c)
					}
					judge(t, "c11.equiv", c11Check, c)
				}
			}
		}
	}
	cov.ExtraAdd("list_words_swept", int64(seenWords))
	cov.Exhaustive("all 10 x 2048 list words, each inside a 24-word sentence, in NFC/NFD/NFKC/NFKD/full-width with both separators")
}

func TestC11_Respell(t *testing.T) {
	cov.Rule(c11Rule)
	k := 0
	rapidCheck(t, func(rt *rapid.T) {
		m, p, _ := seedPair(rt)
		if len(m) > 1<<12 {
			m = m[:1<<12]
			m = strings.ToValidUTF8(m, "")
		}
		rm := gen.Respell(m).Draw(rt, "m2")
		rp := gen.Respell(p).Draw(rt, "p2")
		c := &equivSeedCase{M: text(m), P: text(p), M2: text(rm.S), P2: text(rp.S), Method: rm.Method + "/" + rp.Method}
		cov.ClassN("unsound-variants-discarded", rm.Unsound+rp.Unsound)
		c11Record(c)
		if k++; k%53 == 1 && len(m) < 300 {
			cov.Sample("c11.equiv", c)
		}
		judgeH(rt, "c11.equiv", c11Check, c, gen.Lang().Draw(rt, "history-around"))
	})
	_ = fmt.Sprint
}
