package props

import (
	"bytes"
	"fmt"
	"io"
	"strings"
	"sync"
	"testing"

	bip39 "github.com/islishude/bip39"
	"pgregory.net/rapid"

	"verif/harness/cov"
	"verif/harness/gen"
	"verif/harness/ref"
)

// C02 — every mnemonic returned by the generators, and every sentence of list
// words with a correct checksum, is accepted by CheckMnemonic and
// IsMnemonicValid under the same language.

type roundCase struct {
	Lang string `json:"lang"`
	// Source: "entropy" (NewMnemonicByEntropy), "reader" (NewMnemonic fed Entropy
	// through the swap hook), "default" (NewMnemonic with the default source; N words),
	// "indices" (sentence assembled from golden words; Sep between them).
	Source  string `json:"source"`
	Entropy hexb   `json:"entropy,omitempty"`
	N       int    `json:"n,omitempty"`
	Indices []int  `json:"indices,omitempty"`
	Sep     string `json:"sep,omitempty"`
	Shape   string `json:"shape,omitempty"`
	// Chunk, for source "reader": the source delivers at most this many bytes per Read (0 = all)
	Chunk int `json:"chunk,omitempty"`
}

// chunkReader delivers at most n bytes per call.
type chunkReader struct {
	r io.Reader
	n int
}

func (c chunkReader) Read(p []byte) (int, error) {
	if c.n > 0 && len(p) > c.n {
		p = p[:c.n]
	}
	return c.r.Read(p)
}

func acceptBoth(sig string, m string, l ref.Lang, how string) error {
	// a typo first: the same sentence with a middle word replaced by a non-word, and with a wrong
	// last word, are validated (and must be rejected) right before the real one
	if toks := strings.Split(m, l.Sep()); len(toks) >= 12 {
		typo := append([]string(nil), toks...)
		typo[len(typo)/2] = "qqqq"
		if ok, _ := implValid(strings.Join(typo, " "), implLang[l]); ok {
			return failf(sig+" typo-accepted", "IsMnemonicValid accepts %q under %s", strings.Join(typo, " "), l)
		}
	}
	err, p := implCheck(m, implLang[l])
	if p != nil {
		return failf(sig+" panic", "CheckMnemonic(%q, %s) panicked: %v", m, l, p)
	}
	if err != nil {
		return failf(sig, "CheckMnemonic rejects %s: %q under %s: %v", how, m, l, err)
	}
	ok, p := implValid(m, implLang[l])
	if p != nil {
		return failf(sig+" panic", "IsMnemonicValid(%q, %s) panicked: %v", m, l, p)
	}
	if !ok {
		return failf(sig+" IsMnemonicValid", "IsMnemonicValid is false for %s: %q under %s although CheckMnemonic returned nil", how, m, l)
	}
	return nil
}

var c02Check = register("C02", "c02.roundtrip", func(c *roundCase) error {
	l := mustLang(c.Lang)
	switch c.Source {
	case "entropy":
		sig := fmt.Sprintf("C02 roundtrip entropy lang=%s size=%d leadzero=%d", l, len(c.Entropy), min(gen.LeadingZeroBytes(c.Entropy), 2))
		m, err, p := implEncode(c.Entropy, implLang[l])
		if p != nil || err != nil {
			return failf(sig+" generate", "NewMnemonicByEntropy(%x, %s): err=%v panic=%v", []byte(c.Entropy), l, err, p)
		}
		return acceptBoth(sig, m, l, fmt.Sprintf("the output of NewMnemonicByEntropy(%x)", []byte(c.Entropy)))
	case "reader":
		sig := fmt.Sprintf("C02 roundtrip reader lang=%s size=%d leadzero=%d", l, len(c.Entropy), min(gen.LeadingZeroBytes(c.Entropy), 2))
		prev := bip39.VerifSwapRandSource(chunkReader{bytes.NewReader(c.Entropy), c.Chunk})
		m, err, p := implNew(len(c.Entropy)/4*3, implLang[l])
		bip39.VerifSwapRandSource(prev)
		if p != nil || err != nil {
			return failf(sig+" generate", "NewMnemonic(%d, %s) fed %x: err=%v panic=%v", len(c.Entropy)/4*3, l, []byte(c.Entropy), err, p)
		}
		return acceptBoth(sig, m, l, fmt.Sprintf("the output of NewMnemonic fed %x", []byte(c.Entropy)))
	case "default":
		sig := fmt.Sprintf("C02 roundtrip default lang=%s n=%d", l, c.N)
		m, err, p := implNew(c.N, implLang[l])
		if p != nil || err != nil {
			return failf(sig+" generate", "NewMnemonic(%d, %s): err=%v panic=%v", c.N, l, err, p)
		}
		return acceptBoth(sig, m, l, "the output of NewMnemonic with the default source")
	case "indices":
		if !ref.IndicesValid(c.Indices) {
			harnessError("c02: generated indices are not valid: %v", c.Indices)
		}
		sep := c.Sep
		if sep == "" {
			sep = " "
		}
		m := strings.Join(ref.Words(l, c.Indices), sep)
		e, _ := ref.Unpack(c.Indices)
		sig := fmt.Sprintf("C02 accept lang=%s n=%d leadzero=%d", l, len(c.Indices), min(gen.LeadingZeroBytes(e), 2))
		return acceptBoth(sig, m, l, fmt.Sprintf("a sentence of list words with correct checksum (entropy %x)", e))
	}
	harnessError("c02: unknown source %q", c.Source)
	return nil
})

const c02Rule = "C02: (a) the C01 pairwise table through NewMnemonicByEntropy -> CheckMnemonic/IsMnemonicValid (every word of every list at every position); (b) rapid structured entropies (k leading zero bytes for k=1..size, all-ones, runs) through NewMnemonicByEntropy and through NewMnemonic fed by a scripted source; (c) NewMnemonic with the default source for every (n, language); (d) sentences assembled directly from golden words with a reference-solved last word \u2014 random ones and, for every language and count, the sentences of extreme byte length (24 longest / shortest words of the list) \u2014 joined by U+0020 (and U+3000 for Japanese). Non-trivial: the entropy's first byte is 0x00, or it is all ones, or the case comes from the table or from the default source (none of which the suite's vectors reach); distinct by (source, language, entropy)"

func c02Record(c *roundCase) {
	cov.Eval(1)
	cov.Class("source=" + c.Source)
	e := []byte(c.Entropy)
	if c.Source == "indices" {
		e, _ = ref.Unpack(c.Indices)
	}
	if c.Source != "default" {
		lz := gen.LeadingZeroBytes(e)
		cov.Class(fmt.Sprintf("lead-zero-bytes=%d", min(lz, 5)))
		allOnes := len(e) > 0 && bytes.Count(e, []byte{0xff}) == len(e)
		if lz > 0 || allOnes || strings.HasPrefix(c.Shape, "table") {
			cov.NonTrivial("round", []byte(c.Source), []byte(c.Lang), e)
		}
	} else {
		cov.NonTrivial("round-default", []byte(c.Lang), []byte{byte(c.N)}, []byte(fmt.Sprint(cov.Seq())))
	}
}

func TestC02_Table(t *testing.T) {
	cov.Rule(c02Rule)
	item := 0
	for _, size := range ref.Sizes {
		tab := tableEntropies(size)
		for _, l := range allLangs() {
			for i := range tab {
				item++
				if !mine(item) {
					continue
				}
				c := &roundCase{Lang: l.Name(), Source: "entropy", Entropy: tab[i].Bytes, Shape: "table-" + tab[i].Kind}
				c02Record(c)
				judge(t, "c02.roundtrip", c02Check, c)
			}
		}
	}
	cov.Exhaustive("every (language, size, word position, 11-bit index) tuple: 10 x 90 x 2048")
	// leading zero bytes k = 0..size for every size and language, all-ones, through both generators
	for _, size := range ref.Sizes {
		for _, l := range allLangs() {
			if !mine(int(l)) {
				continue
			}
			for k := 0; k <= size; k++ {
				e := bytes.Repeat([]byte{0xa7}, size)
				for i := 0; i < k; i++ {
					e[i] = 0
				}
				for _, src := range []string{"entropy", "reader"} {
					c := &roundCase{Lang: l.Name(), Source: src, Entropy: e, Shape: "table-leadzero", Chunk: []int{0, 5, 1}[k%3]}
					c02Record(c)
					judge(t, "c02.roundtrip", c02Check, c)
				}
			}
			for _, src := range []string{"entropy", "reader"} {
				c := &roundCase{Lang: l.Name(), Source: src, Entropy: bytes.Repeat([]byte{0xff}, size), Shape: "table-allones"}
				c02Record(c)
				judge(t, "c02.roundtrip", c02Check, c)
			}
		}
	}
	// sentences of extreme byte length: the longest and the shortest words of every list, every count
	for _, l := range allLangs() {
		if !mine(int(l)) {
			continue
		}
		for _, n := range ref.Counts {
			for variant := 0; variant < pick(4, 24); variant++ {
				for _, longest := range []bool{true, false} {
					idx := gen.ExtremeIndices(l, n, longest, variant)
					for _, sep := range []string{" ", l.Sep()} {
						c := &roundCase{Lang: l.Name(), Source: "indices", Indices: idx, Sep: sep, Shape: "table-extreme-length"}
						c02Record(c)
						cov.ClassN("extreme-length-sentence-bytes", len(strings.Join(ref.Words(l, idx), sep)))
						judge(t, "c02.roundtrip", c02Check, c)
					}
					e, _ := ref.Unpack(idx)
					c := &roundCase{Lang: l.Name(), Source: "entropy", Entropy: e, Shape: "table-extreme-length"}
					c02Record(c)
					judge(t, "c02.roundtrip", c02Check, c)
				}
			}
		}
	}
	// default source
	reps := pick(20, 400)
	for r := 0; r < reps; r++ {
		for _, n := range ref.Counts {
			for _, l := range allLangs() {
				c := &roundCase{Lang: l.Name(), Source: "default", N: n}
				c02Record(c)
				judge(t, "c02.roundtrip", c02Check, c)
			}
		}
	}
	if prev := bip39.VerifSwapRandSource(nil); prev == nil {
		harnessError("c02: randomness source was left unset")
	} else {
		bip39.VerifSwapRandSource(prev)
	}
	var _ io.Reader
}

func TestC02_Random(t *testing.T) {
	cov.Rule(c02Rule)
	k := 0
	rapidCheck(t, func(rt *rapid.T) {
		l := gen.Lang().Draw(rt, "lang")
		var c *roundCase
		switch src := rapid.SampledFrom([]string{"entropy", "entropy", "reader", "indices"}).Draw(rt, "source"); src {
		case "indices":
			idx := gen.ValidIndices().Draw(rt, "indices")
			c = &roundCase{Lang: l.Name(), Source: src, Indices: idx}
			if l == ref.Japanese && rapid.Bool().Draw(rt, "ideographic-space") {
				c.Sep = "\u3000"
			}
		default:
			e := gen.Entropy().Draw(rt, "ent")
			c = &roundCase{Lang: l.Name(), Source: src, Entropy: e.Bytes, Shape: e.Shape}
			if src == "reader" {
				c.Chunk = rapid.SampledFrom([]int{0, 0, 1, 7, 13, 16}).Draw(rt, "chunk")
			}
		}
		c02Record(c)
		if k++; k%499 == 1 {
			cov.Sample("c02.roundtrip", c)
		}
		judgeH(rt, "c02.roundtrip", c02Check, c, l)
	})
}

// c02.windows: a batch of entropies cut from one buffer (adjacent windows, cap > len), encoded by
// several goroutines at once, each sentence validated. An encoder that writes behind the slice it
// was given damages the neighbouring window while another goroutine is encoding it.
type windowsCase struct {
	Lang       string `json:"lang"`
	Size       int    `json:"size"`
	Windows    int    `json:"windows"`
	Goroutines int    `json:"goroutines"`
	Rounds     int    `json:"rounds"`
	Seed       int    `json:"seed"`
}

var c02WindowsCheck = register("C02", "c02.windows", func(c *windowsCase) error {
	l := mustLang(c.Lang)
	for round := 0; round < c.Rounds; round++ {
		buf := make([]byte, c.Size*c.Windows)
		for i := range buf {
			buf[i] = byte((i+round)*131 + i*i*7 + c.Seed*29 + i>>8)
		}
		pristine := append([]byte(nil), buf...)
		out := make([]string, c.Windows)
		errs := make([]error, c.Windows)
		var wg sync.WaitGroup
		start := make(chan struct{})
		for g := 0; g < c.Goroutines; g++ {
			wg.Add(1)
			go func(g int) {
				defer wg.Done()
				<-start
				for w := g; w < c.Windows; w += c.Goroutines {
					m, err, p := implEncode(buf[w*c.Size:(w+1)*c.Size], implLang[l])
					if p != nil {
						err = p
					}
					out[w], errs[w] = m, err
				}
			}(g)
		}
		close(start)
		wg.Wait()
		sig := fmt.Sprintf("C02 roundtrip windows lang=%s size=%d", l, c.Size)
		for w := range out {
			if errs[w] != nil {
				return failf(sig+" generate", "NewMnemonicByEntropy on window %d of a shared buffer: %v", w, errs[w])
			}
			if err := acceptBoth(sig, out[w], l, fmt.Sprintf("the output of NewMnemonicByEntropy for window %d (%x) of a buffer whose windows %d goroutines encode at once", w, pristine[w*c.Size:(w+1)*c.Size], c.Goroutines)); err != nil {
				return err
			}
		}
		if !bytes.Equal(buf, pristine) {
			return failf(sig+" buffer", "encoding the %d-byte windows of one buffer changed the buffer", c.Size)
		}
	}
	return nil
})

func TestC02_Windows(t *testing.T) {
	cov.Rule(c02Rule + " || batches: the adjacent windows of one buffer (cap > len) encoded by 8 goroutines at once, every sentence validated")
	for round := 0; round < pick(5, 40); round++ {
		c := &windowsCase{Lang: ref.Lang(round % int(ref.NumLangs)).Name(), Size: ref.Sizes[round%5], Windows: 64, Goroutines: 8, Rounds: pick(60, 200), Seed: round}
		cov.Eval(c.Windows * c.Rounds)
		cov.Class("shared-buffer-windows")
		cov.NonTrivial("c02.windows", []byte(fmt.Sprint(round, cfg.Tier)))
		if round == 0 {
			cov.Sample("c02.windows", c)
		}
		judge(t, "c02.windows", c02WindowsCheck, c)
	}
}

// c02.fresh-sweep: in each of many freshly started processes every list word of every language is
// generated into a sentence and validated. Whatever a process decides once at start-up (hash seeds,
// map iteration order, address-space layout) is re-drawn per process: a table that is built
// differently in one start out of a few hundred shows here.
var c02FreshSweepCheck = register("C02", "c02.fresh-sweep", coldCheck("C02"))

func TestC02_FreshSweep(t *testing.T) {
	cov.Rule(c02Rule + " || fresh-process sweeps: in each of 400 (thorough 4000) newly started processes, for every language, 86 24-word sentences covering all 2048 list words are generated from entropy and validated (per-process randomness: hash seeds, map order)")
	n := pick(400, 4000)
	for k := 0; k < n; k++ {
		if !mine(k) {
			continue
		}
		var probe []op
		for _, l := range allLangs() {
			for base := 0; base < 2048; base += 24 {
				prefix := make([]int, 23)
				for i := range prefix {
					prefix[i] = (base + (i+k)%24) % 2048
				}
				sol := ref.SolveLast(prefix)
				e, _ := ref.Unpack(append(prefix, sol[(base+k)%len(sol)]))
				probe = append(probe, op{Kind: "encode", Lang: int64(implLang[l]), Entropy: e})
				probe = append(probe, op{Kind: "check", Lang: int64(implLang[l]), Text: text(ref.Encode(e, l))})
			}
		}
		c := &coldCase{Probe: probe}
		cov.Eval(len(probe))
		cov.Class("fresh-process-word-sweep")
		cov.NonTrivial("c02.fresh-sweep", []byte{byte(k), byte(k >> 8)})
		judge(t, "c02.fresh-sweep", c02FreshSweepCheck, c)
	}
}
