package props

import (
	"bytes"

	"fmt"
	bip39 "github.com/islishude/bip39"
	"testing"

	"pgregory.net/rapid"

	"verif/harness/cov"
	"verif/harness/gen"
	"verif/harness/ref"
)

// C05 — the mnemonic is a lossless encoding of the entropy: the standard
// decoding of the returned sentence yields exactly the original bytes, and
// every single-bit flip of the entropy changes the sentence.

type losslessCase struct {
	Lang    string `json:"lang"`
	Entropy hexb   `json:"entropy"`
	Flips   bool   `json:"flips"` // also try all ENT single-bit flips
	// AfterFailedNew: a NewMnemonic call whose source ends after a few bytes is made first (through
	// the swap hook; sequential cases only)
	AfterFailedNew bool   `json:"after_failed_new,omitempty"`
	Shape          string `json:"shape,omitempty"`
}

func c05Decode(l ref.Lang, ent []byte) (string, error) {
	m, err, p := implEncode(ent, implLang[l])
	sig := fmt.Sprintf("C05 decode lang=%s size=%d", l, len(ent))
	if p != nil {
		return "", failf(sig+" panic", "NewMnemonicByEntropy(%x, %s) panicked: %v", ent, l, p)
	}
	if err != nil {
		return "", failf(sig+" error", "NewMnemonicByEntropy(%x, %s) returned error %v", ent, l, err)
	}
	back, _, derr := ref.Decode(l, m)
	if derr != nil {
		return "", failf(sig+" undecodable", "sentence %q for entropy %x does not decode: %v", m, ent, derr)
	}
	if !bytes.Equal(back, ent) {
		return "", failf(sig, "sentence %q decodes to %x, not to the original entropy %x", m, back, ent)
	}
	return m, nil
}

var c05Check = register("C05", "c05.lossless", func(c *losslessCase) error {
	l := mustLang(c.Lang)
	if c.AfterFailedNew {
		prev := bip39.VerifSwapRandSource(bytes.NewReader([]byte{0xde, 0xad, 0xbe, 0xef, 0x42}))
		implNew(24, implLang[l])
		implNew(12, implLang[l])
		bip39.VerifSwapRandSource(prev)
	}
	m, err := c05Decode(l, c.Entropy)
	if err != nil {
		return err
	}
	// adjacent windows of one slab (cap > len): encoding one window must not disturb the next
	{
		n := len(c.Entropy)
		slab := make([]byte, 3*n)
		for i := range slab {
			slab[i] = c.Entropy[i%n] ^ byte(i/n*0x5b)
		}
		pristine := append([]byte(nil), slab...)
		for w := 0; w < 3; w++ {
			if _, err := c05Decode(l, slab[w*n:(w+1)*n]); err != nil {
				return err
			}
			if !bytes.Equal(slab, pristine) {
				return failf(fmt.Sprintf("C05 window lang=%s size=%d", l, n), "encoding the %d-byte window %d of a larger buffer changed the buffer: %x -> %x (the next window no longer encodes its own entropy)", n, w, pristine, slab)
			}
		}
	}
	if !c.Flips {
		return nil
	}
	e := append([]byte(nil), c.Entropy...)
	for bit := 0; bit < len(e)*8; bit++ {
		e[bit/8] ^= 1 << uint(7-bit%8)
		m2, err := c05Decode(l, e)
		if err != nil {
			return err
		}
		if m2 == m {
			return failf(fmt.Sprintf("C05 flip lang=%s size=%d", l, len(e)), "flipping bit %d of %x does not change the sentence %q", bit, []byte(c.Entropy), m)
		}
		e[bit/8] ^= 1 << uint(7-bit%8)
	}
	return nil
})

const c05Rule = "C05: the C01 pairwise table (every (language,size,position,index) tuple) the extreme-byte-length sentences of every language and size (longest / shortest list words), and rapid-generated structured entropies are encoded by the implementation and decoded by the reference decoder (golden word->index map, concatenate, drop CS bits); for rapid cases every one of the ENT single-bit flips is encoded too and must give a different sentence that decodes to the flipped entropy. Non-trivial: every case; distinct by (language, entropy); flips counted separately in flips_checked"

func c05Record(c *losslessCase) {
	cov.Eval(1)
	cov.Class(fmt.Sprintf("size=%d", len(c.Entropy)))
	if c.Shape != "" {
		cov.Class("shape=" + c.Shape)
	}
	if c.Flips {
		cov.ExtraAdd("flips_checked", int64(len(c.Entropy)*8))
	}
	cov.NonTrivial("lossless", []byte(c.Lang), c.Entropy)
}

func TestC05_Table(t *testing.T) {
	cov.Rule(c05Rule)
	item := 0
	for _, size := range ref.Sizes {
		tab := tableEntropies(size)
		for _, l := range allLangs() {
			for i := range tab {
				item++
				if !mine(item) {
					continue
				}
				c := &losslessCase{Lang: l.Name(), Entropy: tab[i].Bytes, Shape: "table-" + tab[i].Kind}
				c05Record(c)
				judge(t, "c05.lossless", c05Check, c)
			}
		}
	}
	for _, l := range allLangs() {
		if !mine(int(l)) {
			continue
		}
		for _, e := range extremeEntropies(l) {
			c := &losslessCase{Lang: l.Name(), Entropy: e, Flips: true, Shape: "table-extreme-length"}
			c05Record(c)
			judge(t, "c05.lossless", c05Check, c)
		}
	}
	cov.Exhaustive("every (language, size, word position, 11-bit index) tuple: 10 x 90 x 2048")
}

func TestC05_Flips(t *testing.T) {
	cov.Rule(c05Rule)
	k := 0
	rapidCheck(t, func(rt *rapid.T) {
		l := gen.Lang().Draw(rt, "lang")
		e := gen.Entropy().Draw(rt, "ent")
		c := &losslessCase{Lang: l.Name(), Entropy: e.Bytes, Flips: true, Shape: e.Shape, AfterFailedNew: rapid.Bool().Draw(rt, "after-failed-new")}
		c05Record(c)
		if k++; k%97 == 1 {
			cov.Sample("c05.lossless", c)
		}
		judge(rt, "c05.lossless", c05Check, c)
	})
}
