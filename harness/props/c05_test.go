package props

import (
	"bytes"

	"fmt"
	bip39 "github.com/islishude/bip39"
	"testing"

	"pgregory.net/rapid"

	"verif/harness/cov"
	"verif/harness/gen"
	"verif/harness/ref"
)

// C05 — the mnemonic is a lossless encoding of the entropy: the standard
// decoding of the returned sentence yields exactly the original bytes, and
// every single-bit flip of the entropy changes the sentence.

type losslessCase struct {
	Lang    string `json:"lang"`
	Entropy hexb   `json:"entropy"`
	Flips   bool   `json:"flips"` // also try all ENT single-bit flips
	// AfterFailedNew: a NewMnemonic call whose source ends after a few bytes is made first (through
	// the swap hook; sequential cases only)
	AfterFailedNew bool   `json:"after_failed_new,omitempty"`
	Shape          string `json:"shape,omitempty"`
}

func c05Decode(l ref.Lang, ent []byte) (string, error) {
	m, err, p := implEncode(ent, implLang[l])
	sig := fmt.Sprintf("C05 decode lang=%s size=%d", l, len(ent))
	if p != nil {
		return "", failf(sig+" panic", "NewMnemonicByEntropy(%x, %s) panicked: %v", ent, l, p)
	}
	if err != nil {
		return "", failf(sig+" error", "NewMnemonicByEntropy(%x, %s) returned error %v", ent, l, err)
	}
	back, _, derr := ref.Decode(l, m)
	if derr != nil {
		return "", failf(sig+" undecodable", "sentence %q for entropy %x does not decode: %v", m, ent, derr)
	}
	if !bytes.Equal(back, ent) {
		return "", failf(sig, "sentence %q decodes to %x, not to the original entropy %x", m, back, ent)
	}
	return m, nil
}

var c05Check = register("C05", "c05.lossless", func(c *losslessCase) error {
	l := mustLang(c.Lang)
	if c.AfterFailedNew {
		prev := bip39.VerifSwapRandSource(bytes.NewReader([]byte{0xde, 0xad, 0xbe, 0xef, 0x42}))
		implNew(24, implLang[l])
		implNew(12, implLang[l])
		bip39.VerifSwapRandSource(prev)
	}
	m, err := c05Decode(l, c.Entropy)
	if err != nil {
		return err
	}
	// adjacent windows of one slab (cap > len): encoding one window must not disturb the next
	{
		n := len(c.Entropy)
		slab := make([]byte, 3*n)
		for i := range slab {
			slab[i] = c.Entropy[i%n] ^ byte(i/n*0x5b)
		}
		pristine := append([]byte(nil), slab...)
		for w := 0; w < 3; w++ {
			if _, err := c05Decode(l, slab[w*n:(w+1)*n]); err != nil {
				return err
			}
			if !bytes.Equal(slab, pristine) {
				return failf(fmt.Sprintf("C05 window lang=%s size=%d", l, n), "encoding the %d-byte window %d of a larger buffer changed the buffer: %x -> %x (the next window no longer encodes its own entropy)", n, w, pristine, slab)
			}
		}
	}
	if !c.Flips {
		return nil
	}
	e := append([]byte(nil), c.Entropy...)
	for bit := 0; bit < len(e)*8; bit++ {
		e[bit/8] ^= 1 << uint(7-bit%8)
		m2, err := c05Decode(l, e)
		if err != nil {
			return err
		}
		if m2 == m {
			return failf(fmt.Sprintf("C05 flip lang=%s size=%d", l, len(e)), "flipping bit %d of %x does not change the sentence %q", bit, []byte(c.Entropy), m)
		}
		e[bit/8] ^= 1 << uint(7-bit%8)
	}
	return nil
})

const c05Rule = "C05: the C01 pairwise table (every (language,size,position,index) tuple) the extreme-byte-length sentences of every language and size (longest / shortest list words), and rapid-generated structured entropies are encoded by the implementation and decoded by the reference decoder (golden word->index map, concatenate, drop CS bits); for rapid cases every one of the ENT single-bit flips is encoded too and must give a different sentence that decodes to the flipped entropy. Non-trivial: every case; distinct by (language, entropy); flips counted separately in flips_checked"

func c05Record(c *losslessCase) {
	cov.Eval(1)
	cov.Class(fmt.Sprintf("size=%d", len(c.Entropy)))
	if c.Shape != "" {
		cov.Class("shape=" + c.Shape)
	}
	if c.Flips {
		cov.ExtraAdd("flips_checked", int64(len(c.Entropy)*8))
	}
	cov.NonTrivial("lossless", []byte(c.Lang), c.Entropy)
}

func TestC05_Table(t *testing.T) {
	cov.Rule(c05Rule)
	item := 0
	for _, size := range ref.Sizes {
		tab := tableEntropies(size)
		for _, l := range allLangs() {
			for i := range tab {
				item++
				if !mine(item) {
					continue
				}
				c := &losslessCase{Lang: l.Name(), Entropy: tab[i].Bytes, Shape: "table-" + tab[i].Kind}
				c05Record(c)
				judge(t, "c05.lossless", c05Check, c)
			}
		}
	}
	for _, l := range allLangs() {
		if !mine(int(l)) {
			continue
		}
		for _, e := range extremeEntropies(l) {
			c := &losslessCase{Lang: l.Name(), Entropy: e, Flips: true, Shape: "table-extreme-length"}
			c05Record(c)
			judge(t, "c05.lossless", c05Check, c)
		}
	}
	cov.Exhaustive("every (language, size, word position, 11-bit index) tuple: 10 x 90 x 2048")
}

func TestC05_Flips(t *testing.T) {
	cov.Rule(c05Rule)
	k := 0
	rapidCheck(t, func(rt *rapid.T) {
		l := gen.Lang().Draw(rt, "lang")
		e := gen.Entropy().Draw(rt, "ent")
		c := &losslessCase{Lang: l.Name(), Entropy: e.Bytes, Flips: true, Shape: e.Shape, AfterFailedNew: rapid.Bool().Draw(rt, "after-failed-new")}
		c05Record(c)
		if k++; k%97 == 1 {
			cov.Sample("c05.lossless", c)
		}
		judge(rt, "c05.lossless", c05Check, c)
	})
}

// c05.history / c05.cold: the lossless check directly after earlier calls in the same goroutine,
// and in freshly started processes for every first-use order.
var c05HistCheck = historyCheck(c05Check)

func TestC05_History(t *testing.T) {
	cov.Rule(c05Rule + " || each rapid case again directly after 1..5 earlier calls in the same goroutine (rejected and accepted validations, the sibling language, NewMnemonic from a source that ends part-way, wrong sizes, unsupported languages, seeds)")
	k := 0
	rapidCheck(t, func(rt *rapid.T) {
		l := gen.Lang().Draw(rt, "lang")
		e := gen.Entropy().Draw(rt, "ent")
		h := &hist[losslessCase]{History: drawHistory(rt, l), Case: losslessCase{Lang: l.Name(), Entropy: e.Bytes, Shape: e.Shape, Flips: rapid.IntRange(0, 7).Draw(rt, "flips") == 0}}
		c05Record(&h.Case)
		recordHistory(h.History)
		if k++; k%499 == 1 {
			cov.Sample("c05.lossless@history", h)
		}
		judge(rt, "c05.lossless@history", c05HistCheck, h)
	})
}

var c05ColdCheck = register("C05", "c05.cold", coldCheck("C05"))

func TestC05_Cold(t *testing.T) {
	cov.Rule(c05Rule + " || every language x 13 first-use patterns (what touched the language first in a freshly started process), then encodes of all five sizes and of their single-bit neighbours; the child's sentences must equal the reference encoding, the one sentence that decodes to the entropy")
	item := 0
	for _, l := range allLangs() {
		for k, first := range coldFirstUse(l, 1) {
			item++
			if !mine(item) {
				continue
			}
			var probe []op
			for si, size := range ref.Sizes {
				e := tableEntropies(size)[(int(l)*89+k*17+si)%2048].Bytes
				probe = append(probe, op{Kind: "encode", Lang: int64(implLang[l]), Entropy: e})
				f := append([]byte(nil), e...)
				f[(k+si)%size] ^= 1 << uint(k%8)
				probe = append(probe, op{Kind: "encode", Lang: int64(implLang[l]), Entropy: f, ExtraCap: 8})
			}
			c := &coldCase{History: first, Probe: probe}
			cov.Eval(len(probe))
			cov.Class("cold-start")
			cov.NonTrivial("c05.cold", []byte(l.Name()), []byte{byte(k)})
			if item == 3 {
				cov.Sample("c05.cold", c)
			}
			judge(t, "c05.cold", c05ColdCheck, c)
		}
	}
}

// c05.via-source: the same statement for the generating entry point — the sentence NewMnemonic
// returns decodes to exactly the bytes its source delivered, however the delivery was
// fragmented or stalled ((0, nil) reads). A call that gives up on a stalling source with an
// error returns no sentence and is not judged.
type viaSourceCase struct {
	Lang    string `json:"lang"`
	Entropy hexb   `json:"entropy"`
	// Cuts: sizes of the successive non-empty deliveries (the rest in one piece); Stall[i] empty
	// (0, nil) reads are made before delivery i
	Cuts  []int `json:"cuts,omitempty"`
	Stall []int `json:"stall,omitempty"`
}

type stallReader struct {
	data  []byte
	cuts  []int
	stall []int
	i     int
	empty int
}

func (r *stallReader) Read(p []byte) (int, error) {
	if r.i < len(r.stall) && r.empty < r.stall[r.i] {
		r.empty++
		return 0, nil
	}
	k := len(p)
	if r.i < len(r.cuts) && r.cuts[r.i] > 0 && r.cuts[r.i] < k {
		k = r.cuts[r.i]
	}
	r.i++
	r.empty = 0
	if k > len(r.data) {
		k = len(r.data)
	}
	copy(p, r.data[:k])
	r.data = r.data[k:]
	if k == 0 {
		return 0, errCustom // asked for more than the case provides: the source is exhausted
	}
	return k, nil
}

var c05ViaSourceCheck = register("C05", "c05.via-source", func(c *viaSourceCase) error {
	l := mustLang(c.Lang)
	n := len(c.Entropy) / 4 * 3
	src := &stallReader{data: append(append([]byte(nil), c.Entropy...), 0x99, 0x98, 0x97), cuts: c.Cuts, stall: c.Stall}
	prev := bip39.VerifSwapRandSource(src)
	got, err, p := implNew(n, implLang[l])
	bip39.VerifSwapRandSource(prev)
	sig := fmt.Sprintf("C05 via-source lang=%s size=%d", l, len(c.Entropy))
	if p != nil {
		return failf(sig+" panic", "NewMnemonic(%d, %s) panicked: %v", n, l, p)
	}
	stalled := false
	for _, s := range c.Stall {
		if s > 2 {
			stalled = true
		}
	}
	if err != nil && got == "" && stalled {
		cov.Class("gave-up-on-stalling-source")
		return nil
	}
	if err != nil {
		return failf(sig+" error", "NewMnemonic(%d, %s) from a working source (cuts %v, empty reads %v) returned error %v", n, l, c.Cuts, c.Stall, err)
	}
	back, _, derr := ref.Decode(l, got)
	if derr != nil {
		return failf(sig+" undecodable", "sentence %q generated from source bytes %x does not decode: %v", got, []byte(c.Entropy), derr)
	}
	if !bytes.Equal(back, c.Entropy) {
		return failf(sig, "the source delivered %x (cuts %v, empty reads before each delivery %v); NewMnemonic(%d, %s) returned %q, which decodes to %x: entropy bits the source delivered are ignored", []byte(c.Entropy), c.Cuts, c.Stall, n, l, got, back)
	}
	return nil
})

func TestC05_ViaSource(t *testing.T) {
	cov.Rule(c05Rule + " || the generating entry point: NewMnemonic from scripted sources (fragmented deliveries, runs of 0..1000 empty reads before a delivery) must return a sentence that decodes to exactly the delivered bytes")
	k := 0
	rapidCheck(t, func(rt *rapid.T) {
		l := gen.Lang().Draw(rt, "lang")
		e := gen.Entropy().Draw(rt, "ent")
		nc := rapid.IntRange(0, 4).Draw(rt, "deliveries")
		c := &viaSourceCase{Lang: l.Name(), Entropy: e.Bytes}
		for i := 0; i < nc; i++ {
			c.Cuts = append(c.Cuts, rapid.IntRange(1, len(e.Bytes)).Draw(rt, "cut"))
		}
		for i := 0; i <= nc; i++ {
			c.Stall = append(c.Stall, rapid.SampledFrom([]int{0, 0, 0, 1, 2, 3, 15, 16, 17, 99, 100, 101, 127, 128, 150, 255, 256, 1000}).Draw(rt, "empty-reads"))
		}
		cov.Eval(1)
		cov.Class("via-source")
		maxStall := 0
		for _, s := range c.Stall {
			maxStall = max(maxStall, s)
		}
		cov.ClassN("longest-run-of-empty-reads", maxStall)
		cov.NonTrivial("c05.via-source", []byte(c.Lang), c.Entropy, []byte(fmt.Sprint(c.Cuts, c.Stall)))
		if k++; k%499 == 1 {
			cov.Sample("c05.via-source", c)
		}
		judge(rt, "c05.via-source", c05ViaSourceCheck, c)
	})
}
