package props

import (
	"encoding/json"
	"errors"
	"fmt"
	"os"
	"runtime"
	"runtime/debug"
	"strconv"
	"strings"
	"testing"

	bip39 "github.com/islishude/bip39"
	"pgregory.net/rapid"

	"verif/harness/cov"
	"verif/harness/ref"
)

// ---- configuration from the driver -----------------------------------------

type config struct {
	Tier   string // quick | thorough
	Shard  int
	Shards int
	Seed   uint64
}

var cfg = func() config {
	c := config{Tier: "quick", Shards: 1, Seed: 1}
	if v := os.Getenv("VERIF_TIER"); v == "thorough" {
		c.Tier = v
	}
	if v, err := strconv.Atoi(os.Getenv("VERIF_SHARD")); err == nil {
		c.Shard = v
	}
	if v, err := strconv.Atoi(os.Getenv("VERIF_SHARDS")); err == nil && v > 0 {
		c.Shards = v
	}
	if v, err := strconv.ParseUint(os.Getenv("VERIF_SEED"), 10, 64); err == nil {
		c.Seed = v
	}
	return c
}()

func thorough() bool { return cfg.Tier == "thorough" }

// mine reports whether item i of an enumerated domain belongs to this shard.
func mine(i int) bool { return i%cfg.Shards == cfg.Shard }

// pick returns q in the quick tier and t in the thorough tier.
func pick(q, t int) int {
	if thorough() {
		return t
	}
	return q
}

// harnessError reports a failure of the machinery itself (never a verdict).
func harnessError(format string, a ...any) {
	fmt.Printf("HARNESS-ERROR: "+format+"\n", a...)
	os.Exit(3)
}

func TestMain(m *testing.M) {
	if p := os.Getenv("VERIF_PLAN"); p != "" {
		os.Exit(childMain(p))
	}
	if err := ref.SelfTest(); err != nil {
		harnessError("%v", err)
	}
	loadKnownFindings()
	code := m.Run()
	cov.Class("process GOARCH=" + runtime.GOARCH)
	for _, a := range os.Args {
		if strings.HasPrefix(a, "-test.fuzzworker") {
			os.Exit(code) // fuzz workers do not own the statistics file
		}
	}
	if p := os.Getenv("VERIF_STATS"); p != "" {
		if err := cov.Flush(p); err != nil {
			harnessError("writing stats: %v", err)
		}
	}
	os.Exit(code)
}

// ---- languages ---------------------------------------------------------------

// implLang maps the reference model's languages to the implementation's
// constants *by name*, so a renumbering or rename in the implementation is a
// build error or a detected difference, never a silent re-mapping.
var implLang = [ref.NumLangs]bip39.Language{
	ref.ChineseSimplified:  bip39.ChineseSimplified,
	ref.ChineseTraditional: bip39.ChineseTraditional,
	ref.Czech:              bip39.Czech,
	ref.English:            bip39.English,
	ref.French:             bip39.French,
	ref.Italian:            bip39.Italian,
	ref.Japanese:           bip39.Japanese,
	ref.Korean:             bip39.Korean,
	ref.Portuguese:         bip39.Portuguese,
	ref.Spanish:            bip39.Spanish,
}

func allLangs() []ref.Lang {
	out := make([]ref.Lang, ref.NumLangs)
	for i := range out {
		out[i] = ref.Lang(i)
	}
	return out
}

// refLangOf returns the reference language of an implementation value.
func refLangOf(l bip39.Language) (ref.Lang, bool) {
	for r, v := range implLang {
		if v == l {
			return ref.Lang(r), true
		}
	}
	return 0, false
}

// ---- calling the implementation safely --------------------------------------

type panicError struct {
	Value any
	Stack string
}

func (p *panicError) Error() string { return fmt.Sprintf("panic: %v [%s]", p.Value, p.where()) }

// where names the frames of the code under test on the panicking stack.
func (p *panicError) where() string {
	var out []string
	lines := strings.Split(p.Stack, "\n")
	for i, l := range lines {
		if strings.HasPrefix(l, "github.com/islishude/bip39") && i+1 < len(lines) {
			loc := strings.TrimSpace(lines[i+1])
			if k := strings.Index(loc, " +0x"); k > 0 {
				loc = loc[:k]
			}
			out = append(out, strings.SplitN(l, "(", 2)[0]+" "+loc)
		}
		if len(out) == 4 {
			break
		}
	}
	return strings.Join(out, " <- ")
}

// safely runs f and converts a panic into an error.
func safely(f func()) (err error) {
	defer func() {
		if r := recover(); r != nil {
			err = &panicError{Value: r, Stack: string(debug.Stack())}
		}
	}()
	f()
	return nil
}

func implEncode(ent []byte, l bip39.Language) (s string, err error, p error) {
	p = safely(func() { s, err = bip39.NewMnemonicByEntropy(ent, l) })
	return
}

func implCheck(m string, l bip39.Language) (err error, p error) {
	p = safely(func() { err = bip39.CheckMnemonic(m, l) })
	return
}

func implValid(m string, l bip39.Language) (ok bool, p error) {
	p = safely(func() { ok = bip39.IsMnemonicValid(m, l) })
	return
}

func implSeed(m, pw string) (seed []byte, p error) {
	p = safely(func() { seed = bip39.MnemonicToSeed(m, pw) })
	return
}

func implNew(n int, l bip39.Language) (s string, err error, p error) {
	p = safely(func() { s, err = bip39.NewMnemonic(n, l) })
	return
}

func implString(l bip39.Language) (s string, p error) {
	p = safely(func() { s = l.String() })
	return
}

// ---- failures, replay --------------------------------------------------------

type replayFile struct {
	Property string          `json:"property"`
	Kind     string          `json:"kind"`
	Error    string          `json:"error"`
	Sig      string          `json:"signature,omitempty"`
	Case     json.RawMessage `json:"case"`
}

type kindInfo struct {
	property string
	run      func(raw json.RawMessage) error
}

var kinds = map[string]kindInfo{}

// register makes a check replayable: kind names it, check decides one case.
// The returned function is what tests call.
func register[C any](property, kind string, check func(*C) error) func(*C) error {
	kinds[kind] = kindInfo{property: property, run: func(raw json.RawMessage) error {
		var c C
		if err := json.Unmarshal(raw, &c); err != nil {
			harnessError("replay: cannot decode %s case: %v", kind, err)
		}
		return check(&c)
	}}
	// the same check directly after earlier calls in the same goroutine (judgeH)
	hc := historyCheck(check)
	kinds[kind+"@history"] = kindInfo{property: property, run: func(raw json.RawMessage) error {
		var h hist[C]
		if err := json.Unmarshal(raw, &h); err != nil {
			harnessError("replay: cannot decode %s@history case: %v", kind, err)
		}
		return hc(&h)
	}}
	return check
}

// failure carries a signature so a listed known finding can be recognised.
type failure struct {
	Sig string
	Msg string
}

func (f *failure) Error() string { return f.Msg }

func failf(sig, format string, a ...any) error {
	return &failure{Sig: sig, Msg: fmt.Sprintf(format, a...)}
}

func sigOf(err error) string {
	var f *failure
	if errors.As(err, &f) {
		return f.Sig
	}
	return ""
}

// saveFailure writes the failing case as a replay file ($VERIF_FAILCASE).
// rapid's last failing execution is the shrunk one, so the file left behind is
// the minimal case.
func saveFailure(kind string, c any, err error) {
	path := os.Getenv("VERIF_FAILCASE")
	if path == "" {
		return
	}
	raw, mErr := json.Marshal(c)
	if mErr != nil {
		harnessError("cannot encode failing case: %v", mErr)
	}
	msg := err.Error()
	if len(msg) > 4000 {
		msg = msg[:4000] + "\u2026"
	}
	b, _ := json.MarshalIndent(replayFile{Property: kinds[kind].property, Kind: kind, Error: msg, Sig: sigOf(err), Case: raw}, "", " ")
	if wErr := os.WriteFile(path, b, 0o644); wErr != nil {
		harnessError("cannot write %s: %v", path, wErr)
	}
}

type fataler interface {
	Helper()
	Fatalf(format string, args ...any)
}

// known findings: signature -> description (loaded from /verif/known_findings.txt)
var knownFindings = map[string]string{}
var knownSeen = map[string]bool{}

func loadKnownFindings() {
	path := os.Getenv("VERIF_KNOWN")
	if path == "" {
		return
	}
	b, err := os.ReadFile(path)
	if err != nil {
		return
	}
	for _, line := range strings.Split(string(b), "\n") {
		line = strings.TrimSpace(line)
		if !strings.HasPrefix(line, "finding:") {
			continue
		}
		// finding: property=<id> signature=<sig> <what fails>
		f := strings.Fields(line)
		var sig string
		for _, x := range f {
			if strings.HasPrefix(x, "signature=") {
				sig = strings.TrimPrefix(x, "signature=")
			}
		}
		if sig != "" {
			knownFindings[sig] = line
		}
	}
}

// judge runs one case through its check: counts it, and on failure saves the
// replay file and fails the test — unless the failure's signature is a listed
// known finding, which is reported once and otherwise skipped.
func judge[C any](t fataler, kind string, check func(*C) error, c *C) {
	t.Helper()
	err := check(c)
	if err == nil {
		return
	}
	if sig := sigOf(err); sig != "" {
		if _, ok := knownFindings[sig]; ok {
			if !knownSeen[sig] {
				knownSeen[sig] = true
				fmt.Printf("KNOWN-FINDING-SEEN: signature=%s\n", sig)
			}
			cov.Excluded()
			return
		}
	}
	saveFailure(kind, c, err)
	t.Fatalf("%s: %v", kind, err)
}

// TestReplay re-runs a saved failing case through its check, without rapid.
func TestReplay(t *testing.T) {
	path := os.Getenv("VERIF_REPLAY")
	if path == "" {
		t.Skip("VERIF_REPLAY not set")
	}
	b, err := os.ReadFile(path)
	if err != nil {
		harnessError("replay: %v", err)
	}
	var rf replayFile
	if err := json.Unmarshal(b, &rf); err != nil {
		harnessError("replay: %s is not a replay file: %v", path, err)
	}
	k, ok := kinds[rf.Kind]
	if !ok {
		harnessError("replay: unknown kind %q", rf.Kind)
	}
	if err := k.run(rf.Case); err != nil {
		saveFailure(rf.Kind, rf.Case, err)
		t.Fatalf("%s: %v", rf.Kind, err)
	}
}

// rapidCheck runs prop under rapid (flags come from the driver).
func rapidCheck(t *testing.T, prop func(*rapid.T)) {
	t.Helper()
	rapid.Check(t, prop)
}

// b64 is a byte slice that travels as base64 in JSON (inputs may be invalid UTF-8).
type b64 = []byte

// TestRegress replays every saved regression case of the property named by
// VERIF_PROP (the seconds-long replay tier; runs in every quick check).
func TestRegress(t *testing.T) {
	id := os.Getenv("VERIF_PROP")
	dir := os.Getenv("VERIF_REGRESS")
	if id == "" || dir == "" {
		t.Skip("VERIF_PROP / VERIF_REGRESS not set")
	}
	ents, err := os.ReadDir(dir)
	if err != nil {
		harnessError("regress: %v", err)
	}
	for _, e := range ents {
		if !strings.HasPrefix(e.Name(), id+"-") || !strings.HasSuffix(e.Name(), ".json") {
			continue
		}
		b, err := os.ReadFile(dir + "/" + e.Name())
		if err != nil {
			harnessError("regress: %v", err)
		}
		var rf replayFile
		if err := json.Unmarshal(b, &rf); err != nil {
			harnessError("regress: %s: %v", e.Name(), err)
		}
		k, ok := kinds[rf.Kind]
		if !ok {
			harnessError("regress: %s: unknown kind %q", e.Name(), rf.Kind)
		}
		cov.Eval(1)
		cov.Class("regression-replay")
		if err := k.run(rf.Case); err != nil {
			if sig := sigOf(err); sig != "" {
				if _, known := knownFindings[sig]; known {
					if !knownSeen[sig] {
						knownSeen[sig] = true
						fmt.Printf("KNOWN-FINDING-SEEN: signature=%s\n", sig)
					}
					continue
				}
			}
			saveFailure(rf.Kind, rf.Case, err)
			t.Fatalf("%s (%s): %v", rf.Kind, e.Name(), err)
		}
	}
}
