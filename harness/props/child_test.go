package props

func childMain(planPath string) int { return 0 }
