package props

import (
	"bytes"
	"crypto/rand"
	"encoding/json"
	"errors"
	"fmt"
	"io"
	"os"
	"os/exec"
	"path/filepath"
	"runtime"
	"strings"
	"sync"
	"time"

	bip39 "github.com/islishude/bip39"
)

// ---- plans: what a fresh child process executes ------------------------------

type op struct {
	Kind     string `json:"kind"` // encode | new | check | valid | seed | string | sleep (N seconds of idle time)
	Lang     int64  `json:"lang"`
	Entropy  hexb   `json:"entropy,omitempty"`
	ExtraCap int    `json:"extra_cap,omitempty"` // spare capacity behind the entropy slice
	N        int64  `json:"n,omitempty"`
	Text     text   `json:"text,omitempty"`
	Pass     text   `json:"pass,omitempty"`
	// Source, for kind "new" in single-goroutine plans: bytes served by a source
	// installed through the hook for this call only. Empty = default source.
	Source hexb `json:"source,omitempty"`
	// SourceErr: the error kind (see eventErr) the source reports once Source is used up; "" = io.EOF
	SourceErr string `json:"source_err,omitempty"`
	Yield     int    `json:"yield,omitempty"` // runtime.Gosched calls before the op
	Spin      int    `json:"spin,omitempty"`  // busy iterations before the op
	// Repeat > 1: the call is made that many times in a row; every result must equal the first
	// (not compared for default-source NewMnemonic, whose output is random).
	Repeat int `json:"repeat,omitempty"`
	// Wipe, for kind "seed": the caller overwrites the returned slice (as one wipes key material);
	// later calls must be unaffected. Without it the returned slice is watched for later changes.
	Wipe bool `json:"wipe,omitempty"`
}

type phase struct {
	Goroutines [][]op `json:"goroutines"`
}

type plan struct {
	GOMAXPROCS int     `json:"gomaxprocs,omitempty"`
	Phases     []phase `json:"phases"`
	Solo       bool    `json:"solo,omitempty"`  // re-run every op alone at the end
	Probe      bool    `json:"probe,omitempty"` // finally swap the source and report what was installed
	// Env: extra environment variables for the child process (hostile settings of variables whose
	// names appear as literals in the code under test)
	Env []string `json:"env,omitempty"`
	// Unswapped: default-source NewMnemonic calls made after the history and before the probe,
	// with nothing installed (C07: statistics of genuinely unswapped output).
	Unswapped []op `json:"unswapped,omitempty"`
	// TeeNew: after the probe, run these NewMnemonic calls with a recording tee around
	// the previously installed source (C07: output is a function of that source's bytes only).
	TeeNew []op `json:"tee_new,omitempty"`
}

// idleSeconds: the idle time the plan asks for (sleep ops).
func (p *plan) idleSeconds() int {
	n := 0
	for _, ph := range p.Phases {
		for _, g := range ph.Goroutines {
			for _, o := range g {
				if o.Kind == "sleep" {
					n += int(o.N)
				}
			}
		}
	}
	return n
}

type obs struct {
	Str      text   `json:"str,omitempty"`
	Bytes    hexb   `json:"bytes,omitempty"`
	Bool     bool   `json:"bool,omitempty"`
	Err      string `json:"err,omitempty"` // "", ErrWordLen, ErrEntropyLen, ErrChecksumIncorrect, other
	ErrMsg   text   `json:"err_msg,omitempty"`
	Panic    string `json:"panic,omitempty"`
	Mutated  bool   `json:"mutated,omitempty"`  // the entropy's backing array changed during the call
	Unstable string `json:"unstable,omitempty"` // a repetition of the call gave a different result
	// Skipped: the call was not made because an argument does not fit this build's int (32-bit children)
	Skipped bool `json:"skipped,omitempty"`
	// All: for a repeated default-source NewMnemonic, every repetition's output (the parent checks
	// each against the reference model: right word count, list words, correct checksum, no repeats)
	All      []string `json:"all,omitempty"`
	TeeBytes hexb     `json:"tee_bytes,omitempty"`
}

func (o obs) key() string {
	return fmt.Sprintf("%q|%x|%v|%s|%q|%s|%v|%s|%v", string(o.Str), []byte(o.Bytes), o.Bool, o.Err, string(o.ErrMsg), o.Panic, o.Mutated, o.Unstable, o.Skipped)
}

type report struct {
	Results       [][][]obs `json:"results"` // phase, goroutine, op
	Solo          [][][]obs `json:"solo,omitempty"`
	LaterMutated  []string  `json:"later_mutated,omitempty"` // results or inputs that changed after the call returned
	PrevIsDefault bool      `json:"prev_is_crypto_rand_reader"`
	PrevType      string    `json:"prev_type,omitempty"`
	Tee           []obs     `json:"tee,omitempty"`
	Unswapped     []obs     `json:"unswapped,omitempty"`
}

func classifyErr(err error) (string, string) {
	switch {
	case err == nil:
		return "", ""
	case errors.Is(err, bip39.ErrWordLen):
		return "ErrWordLen", err.Error()
	case errors.Is(err, bip39.ErrEntropyLen):
		return "ErrEntropyLen", err.Error()
	case errors.Is(err, bip39.ErrChecksumIncorrect):
		return "ErrChecksumIncorrect", err.Error()
	}
	return "other", err.Error()
}

type liveBuf struct {
	name  string
	live  []byte // full backing array view
	snap  []byte
	err   error // a returned error value: its message must not change later
	msg   string
	str   string // a returned string (shares memory with what the call returned); msg is a deep copy
	isStr bool
}

func watchStr(watch *[]liveBuf, name string, s string) {
	if watch != nil && s != "" {
		*watch = append(*watch, liveBuf{name: name + " returned string", str: s, msg: strings.Clone(s), isStr: true})
	}
}

func (w liveBuf) changed() bool {
	if w.err != nil {
		return w.err.Error() != w.msg
	}
	if w.isStr {
		return w.str != w.msg
	}
	return !bytes.Equal(w.live, w.snap)
}

func watchErr(watch *[]liveBuf, name string, err error) {
	if watch != nil && err != nil {
		*watch = append(*watch, liveBuf{name: name + " returned error", err: err, msg: err.Error()})
	}
}

type teeReader struct {
	r   io.Reader
	buf bytes.Buffer
}

func (t *teeReader) Read(p []byte) (int, error) {
	n, err := t.r.Read(p)
	t.buf.Write(p[:n])
	return n, err
}

// endingReader reports err instead of io.EOF once r is used up.
type endingReader struct {
	r   io.Reader
	err error
}

func (e *endingReader) Read(p []byte) (int, error) {
	n, err := e.r.Read(p)
	if err == io.EOF {
		err = e.err
	}
	return n, err
}

// execOp runs one op against the implementation; watch collects caller-owned
// buffers to re-check at the end of the history.
func execOp(o *op, watch *[]liveBuf, name string) obs {
	first := execOnce(o, watch, name)
	if o.Repeat > 1 {
		random := o.Kind == "new" && len(o.Source) == 0
		for i := 1; i < o.Repeat; i++ {
			again := execOnce(o, nil, name)
			if random {
				if len(first.All) < 1000 {
					first.All = append(first.All, string(again.Str))
				}
				again.Str = first.Str
			}
			if again.key() != first.key() {
				first.Unstable = fmt.Sprintf("repetition %d returned %s, the first call returned %s", i, again.key(), first.key())
				break
			}
		}
	}
	return first
}

func execOnce(o *op, watch *[]liveBuf, name string) obs {
	for i := 0; i < o.Yield; i++ {
		runtime.Gosched()
	}
	x := 0
	for i := 0; i < o.Spin; i++ {
		x += i * i
	}
	_ = x
	var r obs
	lang := bip39.Language(o.Lang)
	if int64(lang) != o.Lang || int64(int(o.N)) != o.N {
		return obs{Skipped: true}
	}
	perr := safely(func() {
		switch o.Kind {
		case "encode":
			var ent []byte
			if o.Entropy != nil {
				back := make([]byte, len(o.Entropy)+o.ExtraCap)
				for i := range back {
					back[i] = 0xc3
				}
				copy(back, o.Entropy)
				ent = back[:len(o.Entropy)]
				snap := append([]byte(nil), back...)
				defer func() {
					if !bytes.Equal(back, snap) {
						r.Mutated = true
					}
					if watch != nil {
						*watch = append(*watch, liveBuf{name: name + " entropy", live: back, snap: snap})
					}
				}()
			}
			s, err := bip39.NewMnemonicByEntropy(ent, lang)
			r.Str = text(strings.Clone(s))
			watchStr(watch, name, s)
			r.Err, r.ErrMsg = classifyErr2(err)
		case "new":
			var prev io.Reader
			if len(o.Source) > 0 {
				var src io.Reader = bytes.NewReader(o.Source)
				if o.SourceErr != "" {
					src = &endingReader{r: src, err: eventErr(o.SourceErr)}
				}
				prev = bip39.VerifSwapRandSource(src)
			}
			s, err := bip39.NewMnemonic(int(o.N), lang)
			if len(o.Source) > 0 {
				bip39.VerifSwapRandSource(prev)
			}
			r.Str = text(strings.Clone(s))
			watchStr(watch, name, s)
			r.Err, r.ErrMsg = classifyErr2(err)
		case "check":
			err := bip39.CheckMnemonic(string(o.Text), lang)
			r.Err, r.ErrMsg = classifyErr2(err)
			watchErr(watch, name, err)
		case "valid":
			r.Bool = bip39.IsMnemonicValid(string(o.Text), lang)
		case "seed":
			b := bip39.MnemonicToSeed(string(o.Text), string(o.Pass))
			r.Bytes = append([]byte(nil), b...)
			if o.Wipe {
				full := b[:cap(b)]
				for i := range full {
					full[i] = 0xa5
				}
			} else if watch != nil {
				*watch = append(*watch, liveBuf{name: name + " returned seed", live: b[:cap(b)], snap: append([]byte(nil), b[:cap(b)]...)})
			}
		case "sleep":
			time.Sleep(time.Duration(o.N) * time.Second)
		case "string":
			s := lang.String()
			r.Str = text(strings.Clone(s))
			watchStr(watch, name, s)
		default:
			panic("verif child: unknown op kind " + o.Kind)
		}
	})
	if perr != nil {
		r.Panic = perr.Error()
	}
	return r
}

func classifyErr2(err error) (string, text) {
	a, b := classifyErr(err)
	return a, text(b)
}

// childMain executes the plan named by VERIF_PLAN and writes <plan>.out.
func childMain(planPath string) int {
	b, err := os.ReadFile(planPath)
	if err != nil {
		fmt.Fprintln(os.Stderr, "verif child:", err)
		return 3
	}
	var p plan
	if err := json.Unmarshal(b, &p); err != nil {
		fmt.Fprintln(os.Stderr, "verif child:", err)
		return 3
	}
	if p.GOMAXPROCS > 0 {
		runtime.GOMAXPROCS(p.GOMAXPROCS)
	}
	var rep report
	var watch []liveBuf
	var watchMu sync.Mutex
	for pi := range p.Phases {
		ph := &p.Phases[pi]
		res := make([][]obs, len(ph.Goroutines))
		if len(ph.Goroutines) == 1 {
			res[0] = make([]obs, len(ph.Goroutines[0]))
			for oi := range ph.Goroutines[0] {
				res[0][oi] = execOp(&ph.Goroutines[0][oi], &watch, fmt.Sprintf("phase %d op %d", pi, oi))
			}
		} else {
			start := make(chan struct{})
			var wg sync.WaitGroup
			for gi := range ph.Goroutines {
				res[gi] = make([]obs, len(ph.Goroutines[gi]))
				wg.Add(1)
				go func(gi int) {
					defer wg.Done()
					var local []liveBuf
					<-start
					for oi := range ph.Goroutines[gi] {
						res[gi][oi] = execOp(&ph.Goroutines[gi][oi], &local, fmt.Sprintf("phase %d goroutine %d op %d", pi, gi, oi))
					}
					watchMu.Lock()
					watch = append(watch, local...)
					watchMu.Unlock()
				}(gi)
			}
			close(start)
			wg.Wait()
		}
		rep.Results = append(rep.Results, res)
	}
	if p.Solo {
		for pi := range p.Phases {
			res := make([][]obs, len(p.Phases[pi].Goroutines))
			for gi := range p.Phases[pi].Goroutines {
				res[gi] = make([]obs, len(p.Phases[pi].Goroutines[gi]))
				for oi := range p.Phases[pi].Goroutines[gi] {
					res[gi][oi] = execOp(&p.Phases[pi].Goroutines[gi][oi], &watch, fmt.Sprintf("solo phase %d goroutine %d op %d", pi, gi, oi))
				}
			}
			rep.Solo = append(rep.Solo, res)
		}
	}
	// two collections first: finalizers and pool clean-up that wipe or recycle memory a caller
	// still holds run now
	runtime.GC()
	runtime.GC()
	for _, w := range watch {
		if w.changed() {
			rep.LaterMutated = append(rep.LaterMutated, w.name)
		}
	}
	for i := range p.Unswapped {
		rep.Unswapped = append(rep.Unswapped, execOp(&p.Unswapped[i], nil, "unswapped"))
	}
	if p.Probe {
		tee := &teeReader{}
		prev := bip39.VerifSwapRandSource(tee)
		rep.PrevIsDefault = prev == rand.Reader
		rep.PrevType = fmt.Sprintf("%T", prev)
		tee.r = prev
		if prev == nil {
			tee.r = bytes.NewReader(nil)
		}
		for i := range p.TeeNew {
			tee.buf.Reset()
			o := execOp(&p.TeeNew[i], nil, "tee")
			o.TeeBytes = append([]byte(nil), tee.buf.Bytes()...)
			rep.Tee = append(rep.Tee, o)
		}
		bip39.VerifSwapRandSource(prev)
	}
	out, err := json.Marshal(&rep)
	if err != nil {
		fmt.Fprintln(os.Stderr, "verif child:", err)
		return 3
	}
	if err := os.WriteFile(planPath+".out", out, 0o644); err != nil {
		fmt.Fprintln(os.Stderr, "verif child:", err)
		return 3
	}
	return 0
}

// ---- parent side ---------------------------------------------------------------

type childRun struct {
	Report  *report
	Exit    int
	Stderr  string
	RaceLog string
	Crashed bool // died with a Go runtime panic / fatal error
}

var childSeq struct {
	sync.Mutex
	n int
}

// childEnviron: the child's environment. GOMAXPROCS is also given as a variable, so that code
// reading it at package initialisation sees the plan's value; plan.Env adds hostile settings.
func childEnviron(p *plan) []string {
	env := os.Environ()
	if p.GOMAXPROCS > 0 {
		env = append(env, fmt.Sprintf("GOMAXPROCS=%d", p.GOMAXPROCS))
	}
	return append(env, p.Env...)
}

// spawnChild executes the plan in a newly started process (the race build when race is set).
func spawnChild(p *plan, race bool) *childRun {
	bin := os.Getenv("VERIF_SELF")
	if race {
		bin = os.Getenv("VERIF_SELF_RACE")
	}
	if bin == "" {
		harnessError("child binary not configured (VERIF_SELF / VERIF_SELF_RACE)")
	}
	work := os.Getenv("VERIF_WORK")
	if work == "" {
		work = os.TempDir()
	}
	childSeq.Lock()
	childSeq.n++
	id := childSeq.n
	childSeq.Unlock()
	planPath := filepath.Join(work, fmt.Sprintf("plan-%d-%d.json", os.Getpid(), id))
	b, err := json.Marshal(p)
	if err != nil {
		harnessError("cannot encode plan: %v", err)
	}
	if err := os.WriteFile(planPath, b, 0o644); err != nil {
		harnessError("cannot write plan: %v", err)
	}
	defer os.Remove(planPath)
	defer os.Remove(planPath + ".out")
	raceLog := planPath + ".race"
	cmd := exec.Command(bin)
	cmd.Env = append(childEnviron(p), "VERIF_PLAN="+planPath, "VERIF_STATS=", "VERIF_FAILCASE=",
		"GORACE=halt_on_error=0 exitcode=66 atexit_sleep_ms=0 log_path="+raceLog)
	var stderr bytes.Buffer
	cmd.Stderr = &stderr
	cmd.Stdout = &stderr
	done := make(chan error, 1)
	if err := cmd.Start(); err != nil {
		harnessError("cannot start child: %v", err)
	}
	go func() { done <- cmd.Wait() }()
	run := &childRun{}
	select {
	case err = <-done:
	case <-time.After(time.Duration(120+p.idleSeconds()) * time.Second):
		cmd.Process.Kill()
		<-done
		run.Exit = -2
		run.Stderr = "child did not finish within 120 s (plus its planned idle time)\n" + stderr.String()
		return run
	}
	run.Stderr = stderr.String()
	if err != nil {
		var ee *exec.ExitError
		if errors.As(err, &ee) {
			run.Exit = ee.ExitCode()
		} else {
			run.Exit = -1
		}
	}
	if matches, _ := filepath.Glob(raceLog + "*"); len(matches) > 0 {
		for _, m := range matches {
			if lb, err := os.ReadFile(m); err == nil {
				run.RaceLog += string(lb)
			}
			os.Remove(m)
		}
	}
	if strings.Contains(run.Stderr, "fatal error:") || strings.Contains(run.Stderr, "panic:") || strings.Contains(run.Stderr, "unexpected signal") {
		run.Crashed = true
	}
	if ob, err := os.ReadFile(planPath + ".out"); err == nil {
		var rep report
		if json.Unmarshal(ob, &rep) == nil {
			run.Report = &rep
		}
	}
	return run
}
