package props

import (
	"encoding/json"
	"runtime"
	"testing"

	"pgregory.net/rapid"

	"verif/harness/cov"
)

// c13.machine — long in-process histories. The fresh-process histories of c13.history pay ~10 ms per
// history; here thousands of histories per second run inside one process whose state keeps
// accumulating, each case = (the tail of what this process executed before) + (newly drawn calls).
// Oracle: every observation equals the history-free reference model; identical calls give identical
// observations for the whole life of the process; caller-owned buffers are unchanged at the end.
// Replaying a saved case in a fresh process executes prefix + calls from a cold start.

type machineCase struct {
	Prefix []op `json:"prefix,omitempty"`
	Ops    []op `json:"ops"`
}

var machineChecks int

var (
	machineTail   []op                  // what this process executed in earlier cases (bounded)
	machineMemory = map[string]string{} // op -> first observation seen in this process
)

var c13MachineCheck = register("C13", "c13.machine", func(c *machineCase) error {
	var watch []liveBuf
	run := func(ops []op, what string) error {
		for i := range ops {
			o := &ops[i]
			r := execOnce(o, &watch, what)
			if err := modelCheck(o, r); err != nil {
				return failf("C13 "+sigOf(err), "%s call %d: %v", what, i, err)
			}
			kb, _ := json.Marshal(o)
			key := normalize(o, r).key()
			if prev, seen := machineMemory[string(kb)]; seen && prev != key {
				return failf("C13 repeat-differs "+o.Kind, "%s returned %s now (%s call %d) but %s earlier in the same process", opString(o), key, what, i, prev)
			}
			machineMemory[string(kb)] = key
		}
		return nil
	}
	if err := run(c.Prefix, "prefix"); err != nil {
		return err
	}
	if err := run(c.Ops, "history"); err != nil {
		return err
	}
	if machineChecks++; machineChecks%16 == 0 {
		runtime.GC() // finalizers / pool clean-up must not touch what callers still hold
		runtime.GC()
	}
	for _, w := range watch {
		if w.changed() {
			return failf("C13 later-mutation", "caller-owned memory changed after the call returned: %s", w.name)
		}
	}
	return nil
})

func TestC13_Machine(t *testing.T) {
	cov.Rule(c13Rule + " || c13.machine: in-process histories of 1..60 rapid-drawn calls appended to the tail (<= 40 calls) of what the same process executed before; same oracles, plus process-lifetime consistency of identical calls")
	k := 0
	rapidCheck(t, func(rt *rapid.T) {
		pool := drawPool(rt, false)
		n := rapid.IntRange(1, 60).Draw(rt, "calls")
		ops := make([]op, 0, n)
		seeds := 0
		for i := 0; i < n; i++ {
			o := drawOp(rt, pool, true, seeds < 1)
			if o.Kind == "seed" {
				seeds++
			}
			ops = append(ops, o)
		}
		prefix := append([]op(nil), machineTail...)
		c := &machineCase{Prefix: prefix, Ops: ops}
		hc := &historyCase{Ops: ops}
		c13Record(hc)
		cov.Class("in-process-machine")
		if k++; k%211 == 1 && len(ops) < 6 {
			cov.Sample("c13.machine", &machineCase{Ops: ops})
		}
		judge(rt, "c13.machine", c13MachineCheck, c)
		for i := range ops {
			if ops[i].Kind != "seed" {
				machineTail = append(machineTail, ops[i])
			}
		}
		if len(machineTail) > 40 {
			machineTail = machineTail[len(machineTail)-40:]
		}
	})
}
