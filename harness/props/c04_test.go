package props

import (
	"bytes"
	"fmt"
	"runtime"
	"strings"
	"testing"
	"unicode"
	"unicode/utf8"

	"pgregory.net/rapid"

	"verif/harness/cov"
	"verif/harness/gen"
	"verif/harness/ref"
)

// C04 — MnemonicToSeed(m, p) is PBKDF2-HMAC-SHA512(NFKD(m), "mnemonic"||NFKD(p),
// 2048, 64) for all valid-UTF-8 strings; it never validates m and always
// returns a fresh 64-byte slice.

type seedCase struct {
	M     text   `json:"mnemonic"`
	P     text   `json:"passphrase"`
	Shape string `json:"shape,omitempty"`
	// PrimeM/PrimeP: a derivation made immediately before (result also checked): the pair that
	// concatenates to the same bytes with the boundary elsewhere, (a+b, c) vs (a, b+c).
	PrimeM text `json:"prime_mnemonic,omitempty"`
	PrimeP text `json:"prime_passphrase,omitempty"`
	Primed bool `json:"primed,omitempty"`
	GC     bool `json:"gc,omitempty"` // run the collector while the results are held
}

func short(s string) string {
	if len(s) > 120 {
		return fmt.Sprintf("%q\u2026 (%d bytes)", s[:100], len(s))
	}
	return fmt.Sprintf("%q", s)
}

var c04Check = register("C04", "c04.seed", func(c *seedCase) error {
	m, pw := string(c.M), string(c.P)
	if !utf8.ValidString(m) || !utf8.ValidString(pw) {
		harnessError("c04: case is not valid UTF-8")
	}
	sig := "C04 seed"
	if c.Primed {
		pm, pp := string(c.PrimeM), string(c.PrimeP)
		got, p := implSeed(pm, pp)
		if p != nil || !bytes.Equal(got, ref.Seed(pm, pp)) {
			return failf(sig+" value", "MnemonicToSeed(%s, %s) = %x (panic=%v), BIP39 says %x", short(pm), short(pp), got, p, ref.Seed(pm, pp))
		}
		sig += " after-boundary-shifted-call"
	}
	s1, p := implSeed(m, pw)
	if p != nil {
		return failf(sig+" panic", "MnemonicToSeed(%s, %s) panicked: %v", short(m), short(pw), p)
	}
	want := ref.Seed(m, pw)
	if len(s1) != 64 {
		return failf(sig+" length", "MnemonicToSeed(%s, %s) returned %d bytes, want 64", short(m), short(pw), len(s1))
	}
	if !bytes.Equal(s1, want) {
		return failf(sig+" value", "MnemonicToSeed(%s, %s) =\n  %x, BIP39 says\n  %x", short(m), short(pw), s1, want)
	}
	// freshness: a second result must not share memory with the first
	s2, p := implSeed(m, pw)
	if p != nil {
		return failf(sig+" panic", "second MnemonicToSeed(%s, %s) panicked: %v", short(m), short(pw), p)
	}
	if len(s2) != 64 || !bytes.Equal(s2, want) {
		return failf(sig+" second-call", "second MnemonicToSeed(%s, %s) = %x, want %x", short(m), short(pw), s2, want)
	}
	if c.GC {
		// a garbage collection while the caller still holds the seed (finalizers must not wipe it)
		runtime.GC()
		runtime.GC()
		if !bytes.Equal(s2, want) || !bytes.Equal(s1, want) {
			return failf(sig+" changed-after-gc", "a seed returned by MnemonicToSeed(%s, %s) changed after a garbage collection: %x", short(m), short(pw), s2)
		}
	}
	for i := range s1[:cap(s1)] {
		s1[:cap(s1)][i] ^= 0xa5
	}
	if !bytes.Equal(s2, want) {
		return failf(sig+" aliased", "writing into the slice returned by the first MnemonicToSeed call changed the slice returned by the second (shared backing array)")
	}
	s3, p := implSeed(m, pw)
	if p != nil || !bytes.Equal(s3, want) {
		return failf(sig+" aliased-cache", "after the caller wrote into an earlier result, MnemonicToSeed(%s, %s) = %x (panic=%v), want %x", short(m), short(pw), s3, p, want)
	}
	return nil
})

const c04Rule = "C04: pairs (mnemonic, passphrase) of rapid-generated valid-UTF-8 strings \u2014 empty, ASCII, mnemonic-shaped (valid and invalid), beyond the 128-byte HMAC block, non-NFKD, compatibility characters, combining sequences that reorder, passphrases beginning with combining marks, occasionally 64 KiB..1 MiB \u2014 against a hand-written PBKDF2-HMAC-SHA512 over NFKD inputs; plus non-aliasing of results. Non-trivial: m or p is not NFKD-stable, or longer than 128 bytes, or p begins with a combining mark, or m is not a valid mnemonic; distinct by (m, p)"

func c04Record(c *seedCase) {
	cov.Eval(1)
	m, pw := string(c.M), string(c.P)
	nt := false
	if ref.NFKD(m) != m {
		cov.Class("m-not-nfkd")
		nt = true
	}
	if ref.NFKD(pw) != pw {
		cov.Class("p-not-nfkd")
		nt = true
	}
	if len(ref.NFKD(m)) > 128 {
		cov.Class("m-over-hmac-block")
		nt = true
	}
	if n := len(ref.NFKD(m)); n == 128 || n == 64 || n == 256 {
		cov.Class(fmt.Sprintf("m-nfkd-exactly-%d-bytes", n))
		nt = true
	}
	if len(m) > 1<<15 || len(pw) > 1<<15 {
		cov.Class("huge")
	}
	if gen.StartsWithMark(pw) {
		cov.Class("p-starts-with-mark")
		nt = true
	}
	if m == "" {
		cov.Class("m-empty")
	}
	if pw == "" {
		cov.Class("p-empty")
	}
	valid := false
	for _, l := range allLangs() {
		if ref.FieldsValid(l, m) {
			valid = true
		}
	}
	if valid {
		cov.Class("m-valid-mnemonic")
	} else {
		cov.Class("m-not-a-mnemonic")
		nt = true
	}
	if nt {
		cov.NonTrivial("c04", []byte(m), []byte(pw))
	}
}

// seedPair draws (mnemonic, passphrase).
func seedPair(rt *rapid.T) (string, string, string) {
	shape := rapid.SampledFrom([]string{"ustring", "ustring", "valid-mnemonic", "damaged-mnemonic", "long", "empty-m", "mark-first", "huge", "block-boundary", "low-runes", "boundary-shift", "marks-at-boundary", "high-expansion"}).Draw(rt, "shape")
	var m, p string
	p = rapid.OneOf(gen.UString(6), rapid.Just(""), rapid.Just("TREZOR"), rapid.StringN(0, 20, -1)).Draw(rt, "p")
	switch shape {
	case "ustring":
		m = gen.UString(10).Draw(rt, "m")
	case "valid-mnemonic":
		l := gen.Lang().Draw(rt, "lang")
		idx := gen.ValidIndices().Draw(rt, "idx")
		m = strings.Join(ref.Words(l, idx), rapid.SampledFrom([]string{" ", "\u3000"}).Draw(rt, "sep"))
		m = gen.Forms[rapid.SampledFrom(gen.FormNames).Draw(rt, "form")].String(m)
	case "damaged-mnemonic":
		m = gen.Defect().Draw(rt, "mut").Text
		if !utf8.ValidString(m) {
			m = strings.ToValidUTF8(m, "\ufffd")
		}
	case "long":
		m = strings.Repeat(gen.UString(4).Draw(rt, "unit")+"x", rapid.IntRange(20, 200).Draw(rt, "times"))
		if rapid.Bool().Draw(rt, "long-p") {
			p = strings.Repeat(p+"\u00e9", rapid.IntRange(30, 120).Draw(rt, "ptimes"))
		}
	case "empty-m":
		m = ""
	case "block-boundary":
		// the NFKD form of the mnemonic (the HMAC key) is exactly at, one below or one above the
		// SHA-512 block (128), half a block, or two blocks; likewise for "mnemonic"+passphrase now and then
		target := rapid.SampledFrom([]int{127, 128, 129, 63, 64, 65, 111, 112, 255, 256, 257}).Draw(rt, "nfkd-bytes")
		base := rapid.OneOf(gen.UString(4), rapid.Just(""), gen.LowString()).Draw(rt, "base")
		for len(ref.NFKD(base)) > target {
			r := []rune(base)
			base = string(r[:len(r)/2])
		}
		m = gen.PadToNFKDLen(base, target)
		if rapid.Bool().Draw(rt, "pad-p") {
			p = gen.PadToNFKDLen(p, rapid.SampledFrom([]int{119, 120, 121, 128}).Draw(rt, "p-bytes"))
		}
	case "boundary-shift":
		// handled by the caller (needs two pairs); here: strings containing the salt tag itself
		m = gen.UString(3).Draw(rt, "m") + rapid.SampledFrom([]string{"mnemonic", "mnemoni", "nemonic", ""}).Draw(rt, "tag") + gen.UString(2).Draw(rt, "m2")
		p = rapid.SampledFrom([]string{"mnemonic", "c", ""}).Draw(rt, "ptag") + p
	case "marks-at-boundary":
		// the passphrase ends in a combining mark and the mnemonic begins with one (any classes):
		// normalising the two in one buffer would reorder marks across the boundary
		marks := []rune{0x0301, 0x0323, 0x0316, 0x0327, 0x05b0, 0x05bc, 0x0307, 0x3099, 0x0345, 0x031b, 0x0f74}
		m = string(rapid.SampledFrom(marks).Draw(rt, "m-first")) + gen.UString(3).Draw(rt, "m")
		p = rapid.SampledFrom([]string{"pass", "", "\u00e9", "x\u0323"}).Draw(rt, "p-head") + rapid.SampledFrom([]string{"\u0301", "\u00e9", "\u0323\u0301", "\u1e69", "\u05bc"}).Draw(rt, "p-last")
		if rapid.Bool().Draw(rt, "swap") {
			m, p = p, m
		}
	case "high-expansion":
		m = gen.HighExpansionString().Draw(rt, "m")
		if rapid.Bool().Draw(rt, "hx-p") {
			p = gen.HighExpansionString().Draw(rt, "hp")
		}
	case "low-runes":
		m = gen.LowString().Draw(rt, "m")
		if rapid.Bool().Draw(rt, "low-p") {
			p = gen.LowString().Draw(rt, "lp")
		}
	case "mark-first":
		m = gen.UString(5).Draw(rt, "m")
		p = string(rapid.SampledFrom([]rune{0x0301, 0x0323, 0x3099, 0x0345, 0x05bc, 0x0307}).Draw(rt, "mark")) + p
	case "huge":
		if !thorough() && rapid.IntRange(0, 3).Draw(rt, "skip-huge") > 0 {
			m = gen.UString(10).Draw(rt, "m")
			shape = "ustring"
			break
		}
		unit := rapid.SampledFrom([]string{"\u00c5", "a\u0323\u0307", "\uac00", "zoo ", "\u3099", "\ufb03"}).Draw(rt, "unit")
		m = strings.Repeat(unit, rapid.IntRange(1<<14, 1<<18).Draw(rt, "times"))
	}
	return m, p, shape
}

func TestC04_Seed(t *testing.T) {
	cov.Rule(c04Rule)
	if cfg.Shard == 0 {
		// hand-stated anchors (also exercised by the ref self-test)
		fixed := []seedCase{
			{M: "", P: ""},
			{M: "abandon abandon abandon abandon abandon abandon abandon abandon abandon abandon abandon about", P: "TREZOR"},
			{M: "not a mnemonic at all", P: "\u0301starts with a mark"},
			{M: text(strings.Repeat("\u00c5ngstr\u00f6m ", 40)), P: text(strings.Repeat("\ufb01", 70))},
			{M: "a\u0307\u0323", P: "a\u0323\u0307"},
		}
		// sentences typed without their diacritics (and in NFC): the seed is the seed of the string as
		// typed, whatever list words it resembles
		for _, l := range []ref.Lang{ref.Spanish, ref.French, ref.Japanese, ref.Korean, ref.Czech} {
			for k := 0; k < 3; k++ {
				idx := gen.ExtremeIndices(l, ref.Counts[(k+int(l))%5], k%2 == 0, k*5)
				var marked []int
				for i := 0; i < 2048 && len(marked) < len(idx); i += 7 + k {
					if w := ref.Golden(l)[i]; ref.NFKD(w) != stripMarks(w) {
						marked = append(marked, i)
					}
				}
				copy(idx, marked)
				canonical := strings.Join(ref.Words(l, idx), " ")
				fixed = append(fixed, seedCase{M: text(stripMarks(canonical)), P: "TREZOR"}, seedCase{M: text(gen.Forms["NFC"].String(canonical)), P: ""})
			}
		}
		for i := range fixed {
			fixed[i].Shape = "fixed"
			c04Record(&fixed[i])
			judge(t, "c04.seed", c04Check, &fixed[i])
		}
	}
	k := 0
	rapidCheck(t, func(rt *rapid.T) {
		m, p, shape := seedPair(rt)
		c := &seedCase{M: text(m), P: text(p), Shape: shape}
		if shape == "boundary-shift" {
			// (a, x+"mnemonic"+b) then (a+"mnemonic"+x, b): any key built by plain concatenation confuses them
			a, x, b := gen.UString(3).Draw(rt, "a"), rapid.SampledFrom([]string{"", "x", "\u00e9"}).Draw(rt, "x"), rapid.SampledFrom([]string{"TREZOR", "", "p\u0301"}).Draw(rt, "b")
			tag := rapid.SampledFrom([]string{"mnemonic", "mnemonic", "", "zz"}).Draw(rt, "tag")
			c = &seedCase{Primed: true, PrimeM: text(a), PrimeP: text(x + tag + b), M: text(a + tag + x), P: text(b), Shape: shape}
			if rapid.Bool().Draw(rt, "swap") {
				c.PrimeM, c.PrimeP, c.M, c.P = c.M, c.P, c.PrimeM, c.PrimeP
			}
		}
		c.GC = rapid.IntRange(0, 7).Draw(rt, "gc") == 0
		c04Record(c)
		cov.Class("shape=" + shape)
		if k++; k%97 == 1 && len(m) < 300 {
			cov.Sample("c04.seed", c)
		}
		judgeH(rt, "c04.seed", c04Check, c, gen.Lang().Draw(rt, "history-around"))
	})
}

// stripMarks removes the combining marks of the NFKD form (a sentence typed without diacritics).
func stripMarks(s string) string {
	var b strings.Builder
	for _, r := range ref.NFKD(s) {
		if !unicode.Is(unicode.Mn, r) {
			b.WriteRune(r)
		}
	}
	return b.String()
}
