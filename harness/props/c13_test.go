package props

import (
	"encoding/json"
	"fmt"
	"strings"
	"sync"
	"testing"

	"pgregory.net/rapid"

	"verif/harness/cov"
	"verif/harness/gen"
	"verif/harness/ref"
)

// C13 — results depend only on the arguments: no history dependence, no
// mutation of caller memory, no alteration of earlier results.

type historyCase struct {
	Ops []op `json:"ops"`
	// Perm is the order in which a second fresh process executes the same ops
	// (Perm[j] = index into Ops of the j-th call).
	Perm []int `json:"perm"`
}

func describeChildFailure(r *childRun) string {
	s := strings.TrimSpace(r.Stderr)
	if len(s) > 1500 {
		s = s[:1500] + "\u2026"
	}
	return fmt.Sprintf("exit %d: %s", r.Exit, s)
}

func runHistory(ops []op) (*report, error) {
	r := spawnChild(&plan{Phases: []phase{{Goroutines: [][]op{ops}}}}, false)
	if r.Report == nil {
		if r.Crashed {
			return nil, failf("C13 child-crash", "a fresh process executing the history died: %s", describeChildFailure(r))
		}
		harnessError("c13: child failed without a Go crash: %s", describeChildFailure(r))
	}
	if len(r.Report.Results) != 1 || len(r.Report.Results[0]) != 1 || len(r.Report.Results[0][0]) != len(ops) {
		harnessError("c13: malformed child report")
	}
	return r.Report, nil
}

var c13Check = register("C13", "c13.history", func(c *historyCase) error {
	a, err := runHistory(c.Ops)
	if err != nil {
		return err
	}
	resA := a.Results[0][0]
	for i := range c.Ops {
		if err := modelCheck(&c.Ops[i], resA[i]); err != nil {
			return failf("C13 "+sigOf(err), "call %d of the history: %v", i, err)
		}
	}
	if len(a.LaterMutated) > 0 {
		return failf("C13 later-mutation", "after the history finished, caller-owned memory had changed: %v", a.LaterMutated)
	}
	// identical calls at different points of the history give identical observations
	first := map[string]int{}
	for i := range c.Ops {
		kb, _ := json.Marshal(c.Ops[i])
		k := string(kb)
		if j, seen := first[k]; seen {
			if normalize(&c.Ops[i], resA[i]).key() != normalize(&c.Ops[j], resA[j]).key() {
				return failf("C13 repeat-differs "+c.Ops[i].Kind, "%s gives %s as call %d but %s as call %d of the same process", opString(&c.Ops[i]), resA[j].key(), j, resA[i].key(), i)
			}
		} else {
			first[k] = i
		}
	}
	if len(c.Perm) == len(c.Ops) && len(c.Ops) > 1 {
		permuted := make([]op, len(c.Ops))
		for j, i := range c.Perm {
			permuted[j] = c.Ops[i]
		}
		b, err := runHistory(permuted)
		if err != nil {
			return err
		}
		resB := b.Results[0][0]
		for j, i := range c.Perm {
			if ka, kb := normalize(&c.Ops[i], resA[i]).key(), normalize(&c.Ops[i], resB[j]).key(); ka != kb {
				return failf("C13 order-dependent "+c.Ops[i].Kind, "%s gives\n  %s as call %d of one fresh process, but\n  %s as call %d of another fresh process that makes the same calls in a different order", opString(&c.Ops[i]), ka, i, kb, j)
			}
		}
		if len(b.LaterMutated) > 0 {
			return failf("C13 later-mutation", "after the permuted history finished, caller-owned memory had changed: %v", b.LaterMutated)
		}
	}
	return nil
})

const c13Rule = "C13: call histories executed one per freshly started process (and again, permuted, in a second fresh process). (a) complete: all 100 ordered pairs (first-used language, second-used language) x 4 first-call patterns {validate valid, validate invalid, encode, new}; (b) rapid histories of 1..40 calls over all six entry points, supported and unsupported languages, failing calls, wrong sizes, arguments re-used under other languages, scripted and default randomness sources, entropy slices with spare capacity. Oracle: every observation equals the history-free reference model where the properties pin it down, equals the observation of the same call in the permuted process, identical calls give identical observations, entropy buffers (incl. spare capacity) and earlier returned seeds are unchanged at the end. Non-trivial: the history validates under >= 2 languages, or re-uses an argument under another language, or has a failing call before a succeeding one; distinct by history"

func c13Record(c *historyCase) {
	cov.Eval(1)
	cov.ClassN("calls", len(c.Ops))
	langs := map[int64]bool{}
	texts := map[string]map[int64]bool{}
	failedBefore, failThenOK := false, false
	for i := range c.Ops {
		o := &c.Ops[i]
		if o.Kind == "check" || o.Kind == "valid" {
			langs[o.Lang] = true
			if texts[string(o.Text)] == nil {
				texts[string(o.Text)] = map[int64]bool{}
			}
			texts[string(o.Text)][o.Lang] = true
		}
		bad := (o.Kind == "encode" && !ref.ValidSize(len(o.Entropy))) || (o.Kind == "new" && !ref.ValidCount(int(o.N)))
		if bad {
			failedBefore = true
		} else if failedBefore {
			failThenOK = true
		}
		cov.Class("op=" + o.Kind)
	}
	reuse := false
	for _, ls := range texts {
		if len(ls) > 1 {
			reuse = true
		}
	}
	if len(langs) >= 2 {
		cov.Class("validates-under-2+-languages")
	}
	if reuse {
		cov.Class("argument-reused-under-other-language")
	}
	if failThenOK {
		cov.Class("failure-before-success")
	}
	if len(langs) >= 2 || reuse || failThenOK {
		b, _ := json.Marshal(c)
		cov.NonTrivial("c13", b)
	}
}

func TestC13_Pairs(t *testing.T) {
	cov.Rule(c13Rule)
	item := 0
	for _, l1 := range allLangs() {
		for _, l2 := range allLangs() {
			for _, pattern := range []string{"valid", "invalid", "encode", "new"} {
				item++
				if !mine(item) {
					continue
				}
				e1 := tableEntropiesSmall(int(l1)*13 + int(l2))
				s1 := ref.Encode(e1, l1)
				e2 := tableEntropiesSmall(int(l2)*17 + int(l1) + 5)
				s2 := ref.Encode(e2, l2)
				bad2 := strings.Join(ref.Words(l2, append(ref.Indices(e2)[:11], (ref.Indices(e2)[11]+1)%2048)), " ")
				var firstOp op
				switch pattern {
				case "valid":
					firstOp = op{Kind: "check", Lang: int64(implLang[l1]), Text: text(s1)}
				case "invalid":
					firstOp = op{Kind: "check", Lang: int64(implLang[l1]), Text: text(s2)} // another language's sentence
				case "encode":
					firstOp = op{Kind: "encode", Lang: int64(implLang[l1]), Entropy: e1, ExtraCap: 8}
				case "new":
					firstOp = op{Kind: "new", Lang: int64(implLang[l1]), N: 12}
				}
				ops := []op{
					firstOp,
					{Kind: "check", Lang: int64(implLang[l2]), Text: text(s2)},
					{Kind: "check", Lang: int64(implLang[l1]), Text: text(s1)},
					{Kind: "valid", Lang: int64(implLang[l2]), Text: text(bad2)},
					{Kind: "check", Lang: int64(implLang[l2]), Text: text(s1)},
					{Kind: "encode", Lang: int64(implLang[l2]), Entropy: e1},
					{Kind: "check", Lang: 99, Text: text(s1)},
					{Kind: "check", Lang: int64(implLang[l1]), Text: text(s1)},
				}
				perm := make([]int, len(ops))
				for i := range perm {
					perm[i] = len(ops) - 1 - i
				}
				c := &historyCase{Ops: ops, Perm: perm}
				c13Record(c)
				cov.Class("pairs-grid")
				if item == 7 {
					cov.Sample("c13.history", c)
				}
				judge(t, "c13.history", c13Check, c)
			}
		}
	}
	cov.Exhaustive("all 100 ordered pairs (first-used language, second-used language) x 4 first-call patterns, each in two fresh processes")
}

func tableEntropiesSmall(k int) []byte {
	e := make([]byte, 16)
	for i := range e {
		e[i] = byte(k*37 + i*i*11 + i + 1)
	}
	return e
}

func TestC13_Histories(t *testing.T) {
	cov.Rule(c13Rule)
	k := 0
	rapidCheck(t, func(rt *rapid.T) {
		pool := drawPool(rt, false)
		n := rapid.IntRange(1, 40).Draw(rt, "calls")
		ops := make([]op, 0, n)
		seeds := 0
		for i := 0; i < n; i++ {
			o := drawOp(rt, pool, true, seeds < 3)
			if o.Kind == "seed" {
				seeds++
			}
			ops = append(ops, o)
			if len(ops) > 1 && rapid.IntRange(0, 5).Draw(rt, "reissue") == 0 {
				ops = append(ops, ops[rapid.IntRange(0, len(ops)-2).Draw(rt, "which")])
				i++
			}
		}
		idx := make([]int, len(ops))
		for i := range idx {
			idx[i] = i
		}
		perm := rapid.Permutation(idx).Draw(rt, "perm")
		c := &historyCase{Ops: ops, Perm: perm}
		c13Record(c)
		if k++; k%41 == 1 && len(ops) < 8 {
			cov.Sample("c13.history", c)
		}
		judge(rt, "c13.history", c13Check, c)
	})
	_ = gen.Lang
}

// c13.idle: wall-clock time is history too. A fresh process uses every language through every
// entry point, makes no call for a while, and uses them again (tables released by idle timers,
// caches that expire). Thorough tier only: the idle periods are 65 s and 200 s.
var c13IdleCheck = register("C13", "c13.idle", coldCheck("C13"))

func TestC13_Idle(t *testing.T) {
	cov.Rule(c13Rule + " || (c) idle time: fresh processes that use all ten languages through every entry point, make no call for 65 s / 200 s, and use them again (thorough tier only)")
	idles := []int64{65, 200}
	var wg sync.WaitGroup
	errs := make([]error, len(idles))
	cases := make([]*coldCase, len(idles))
	for i, idle := range idles {
		var before, after []op
		for _, l := range allLangs() {
			il := int64(implLang[l])
			e := tableEntropiesSmall(int(l) + 40*i)
			sent := ref.Encode(e, l)
			round := []op{
				{Kind: "check", Lang: il, Text: text(sent)},
				{Kind: "encode", Lang: il, Entropy: e},
				{Kind: "valid", Lang: il, Text: text(sent + " zzzz")},
				{Kind: "string", Lang: il},
				{Kind: "new", Lang: il, N: 12},
				{Kind: "seed", Text: text(sent), Pass: "TREZOR"},
			}
			before = append(before, round...)
			after = append(after, round...)
		}
		cases[i] = &coldCase{History: append(before, op{Kind: "sleep", N: idle}), Probe: after}
		wg.Add(1)
		go func(i int) {
			defer wg.Done()
			errs[i] = c13IdleCheck(cases[i])
		}(i)
	}
	wg.Wait()
	for i := range cases {
		cov.Eval(len(cases[i].History) + len(cases[i].Probe))
		cov.Class("idle-period")
		cov.NonTrivial("c13.idle", []byte{byte(i)})
		judge(t, "c13.idle", func(*coldCase) error { return errs[i] }, cases[i])
	}
}
