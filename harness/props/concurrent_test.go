package props

import (
	"bytes"
	"fmt"
	"strings"
	"sync"
	"testing"

	"verif/harness/cov"
	"verif/harness/gen"
	"verif/harness/ref"
)

// Concurrent variants: the per-call oracles of C01, C02, C04, C05 and C16 are universal statements,
// so they must also hold while other goroutines are inside the package. Each case here is a list of
// single-call cases executed by several goroutines at once (different arguments per goroutine), many
// rounds; the single-call check decides every call. A shared scratch value, a racy cache or a
// non-reentrant helper shows up as a wrong result even when no data race is reported.

func concurrently[C any](cases []C, goroutines, rounds int, check func(*C) error) error {
	if len(cases) == 0 || goroutines < 2 {
		harnessError("concurrently: bad case")
	}
	var wg sync.WaitGroup
	errs := make([]error, goroutines)
	start := make(chan struct{})
	for g := 0; g < goroutines; g++ {
		wg.Add(1)
		go func(g int) {
			defer wg.Done()
			<-start
			for r := 0; r < rounds && errs[g] == nil; r++ {
				for i := range cases {
					c := cases[(i+g*7)%len(cases)] // a private copy per call
					if err := check(&c); err != nil {
						errs[g] = err
						return
					}
				}
			}
		}(g)
	}
	close(start)
	wg.Wait()
	for g, err := range errs {
		if err != nil {
			return failf(sigOf(err)+" concurrent", "with %d goroutines calling at once (goroutine %d): %v", goroutines, g, err)
		}
	}
	return nil
}

type concEncCase struct {
	Cases      []encCase `json:"cases"`
	Goroutines int       `json:"goroutines"`
	Rounds     int       `json:"rounds"`
}

var c01ConcCheck = register("C01", "c01.concurrent", func(c *concEncCase) error {
	return concurrently(c.Cases, c.Goroutines, c.Rounds, c01Check)
})

type concLosslessCase struct {
	Cases      []losslessCase `json:"cases"`
	Goroutines int            `json:"goroutines"`
	Rounds     int            `json:"rounds"`
}

var c05ConcCheck = register("C05", "c05.concurrent", func(c *concLosslessCase) error {
	return concurrently(c.Cases, c.Goroutines, c.Rounds, c05Check)
})

type concRoundCase struct {
	Cases      []roundCase `json:"cases"`
	Goroutines int         `json:"goroutines"`
	Rounds     int         `json:"rounds"`
}

var c02ConcCheck = register("C02", "c02.concurrent", func(c *concRoundCase) error {
	for i := range c.Cases {
		if c.Cases[i].Source == "reader" {
			harnessError("c02.concurrent: the swap hook is not for concurrent use")
		}
	}
	return concurrently(c.Cases, c.Goroutines, c.Rounds, c02Check)
})

type concStringCase struct {
	Values     []int64 `json:"values"`
	Goroutines int     `json:"goroutines"`
	Rounds     int     `json:"rounds"`
}

var c16ConcCheck = register("C16", "c16.concurrent", func(c *concStringCase) error {
	cases := make([]c16Case, len(c.Values))
	for i, v := range c.Values {
		cases[i] = c16Case{N: v}
	}
	return concurrently(cases, c.Goroutines, c.Rounds, c16Check)
})

type concSeedCase struct {
	Cases      []seedCase `json:"cases"`
	Goroutines int        `json:"goroutines"`
	Rounds     int        `json:"rounds"`
}

var c04ConcCheck = register("C04", "c04.concurrent", func(c *concSeedCase) error {
	return concurrently(c.Cases, c.Goroutines, c.Rounds, c04Check)
})

const concRule = "concurrent variant: the same single-call oracle applied while 8 goroutines call the package at once with different arguments (thousands of calls per goroutine); non-trivial: every such batch; distinct by batch"

// concEntropies: a spread of entropies of every size, with and without leading zero bytes.
func concEntropies(k int) [][]byte {
	var out [][]byte
	for i, size := range []int{16, 20, 24, 28, 32, 16, 32, 20} {
		e := make([]byte, size)
		for j := range e {
			e[j] = byte((i+1)*(j+3)*(k+5) + j*j)
		}
		if i%3 == 1 {
			e[0], e[1] = 0, 0
		}
		out = append(out, e)
	}
	out = append(out, bytes.Repeat([]byte{0}, 16), bytes.Repeat([]byte{0xff}, 32))
	return out
}

func TestC01_Concurrent(t *testing.T) {
	cov.Rule(c01Rule + " || " + concRule)
	for round := 0; round < pick(2, 12); round++ {
		var cases []encCase
		for i, e := range concEntropies(round) {
			cases = append(cases, encCase{Lang: ref.Lang((i + round) % int(ref.NumLangs)).Name(), Entropy: e, Shape: "concurrent"})
		}
		c := &concEncCase{Cases: cases, Goroutines: 8, Rounds: pick(300, 1500)}
		cov.Eval(len(cases) * c.Goroutines * c.Rounds)
		cov.Class("concurrent-batch")
		cov.NonTrivial("c01.concurrent", []byte(fmt.Sprint(round, cfg.Tier)))
		judge(t, "c01.concurrent", c01ConcCheck, c)
	}
}

func TestC05_Concurrent(t *testing.T) {
	cov.Rule(c05Rule + " || " + concRule)
	for round := 0; round < pick(2, 12); round++ {
		var cases []losslessCase
		for i, e := range concEntropies(round + 100) {
			cases = append(cases, losslessCase{Lang: ref.Lang((i + round) % int(ref.NumLangs)).Name(), Entropy: e, Shape: "concurrent"})
		}
		c := &concLosslessCase{Cases: cases, Goroutines: 8, Rounds: pick(300, 1500)}
		cov.Eval(len(cases) * c.Goroutines * c.Rounds)
		cov.Class("concurrent-batch")
		cov.NonTrivial("c05.concurrent", []byte(fmt.Sprint(round, cfg.Tier)))
		judge(t, "c05.concurrent", c05ConcCheck, c)
	}
}

func TestC02_Concurrent(t *testing.T) {
	cov.Rule(c02Rule + " || " + concRule)
	for round := 0; round < pick(2, 12); round++ {
		var cases []roundCase
		for i, e := range concEntropies(round + 200) {
			l := ref.Lang((i + round) % int(ref.NumLangs))
			cases = append(cases, roundCase{Lang: l.Name(), Source: "entropy", Entropy: e, Shape: "concurrent"})
			cases = append(cases, roundCase{Lang: l.Name(), Source: "indices", Indices: ref.Indices(e), Shape: "concurrent"})
		}
		c := &concRoundCase{Cases: cases, Goroutines: 8, Rounds: pick(150, 800)}
		cov.Eval(len(cases) * c.Goroutines * c.Rounds)
		cov.Class("concurrent-batch")
		cov.NonTrivial("c02.concurrent", []byte(fmt.Sprint(round, cfg.Tier)))
		judge(t, "c02.concurrent", c02ConcCheck, c)
	}
}

func TestC16_Concurrent(t *testing.T) {
	cov.Rule(c16Rule + " || " + concRule)
	for round := 0; round < pick(2, 12); round++ {
		vals := []int64{-1, 10, int64(-2 - round), int64(11 + round), 0, 9, 256 + int64(round), -1 << 33, 1<<33 + 9, 5, int64(1000 * (round + 1))}
		c := &concStringCase{Values: vals, Goroutines: 8, Rounds: pick(3000, 20000)}
		cov.Eval(len(vals) * c.Goroutines * c.Rounds)
		cov.Class("concurrent-batch")
		cov.NonTrivial("c16.concurrent", []byte(fmt.Sprint(round, cfg.Tier)))
		judge(t, "c16.concurrent", c16ConcCheck, c)
	}
}

func TestC04_Concurrent(t *testing.T) {
	cov.Rule(c04Rule + " || " + concRule)
	for round := 0; round < pick(1, 6); round++ {
		l := ref.Lang(round % int(ref.NumLangs))
		valid := strings.Join(ref.Words(l, ref.Indices(concEntropies(round)[0])), l.Sep())
		cases := []seedCase{
			{M: text(valid), P: "TREZOR"},
			{M: text(gen.Forms["NFC"].String(valid)), P: "\u00e9\uff21"},
			{M: text(gen.FullWidth("abandon ability") + fmt.Sprint(round)), P: ""},
			{M: "\u00c5ngstr\u00f6m \ufb01 " + text(fmt.Sprint(round)), P: "\u0301x"},
			{M: text(strings.Repeat("\u3042\u3099", 70)), P: text(fmt.Sprint(round))},
		}
		c := &concSeedCase{Cases: cases, Goroutines: 8, Rounds: pick(2, 6)}
		cov.Eval(len(cases) * c.Goroutines * c.Rounds)
		cov.Class("concurrent-batch")
		cov.NonTrivial("c04.concurrent", []byte(fmt.Sprint(round, cfg.Tier)))
		judge(t, "c04.concurrent", c04ConcCheck, c)
	}
}
