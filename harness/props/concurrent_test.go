package props

import (
	"bytes"
	"fmt"
	"strings"
	"sync"
	"testing"

	"verif/harness/cov"
	"verif/harness/gen"
	"verif/harness/ref"
)

// Concurrent variants: the per-call oracles of C01, C02, C04, C05 and C16 are universal statements,
// so they must also hold while other goroutines are inside the package. Each case here is a list of
// single-call cases executed by several goroutines at once (different arguments per goroutine), many
// rounds; the single-call check decides every call. A shared scratch value, a racy cache or a
// non-reentrant helper shows up as a wrong result even when no data race is reported.

func concurrently[C any](cases []C, goroutines, rounds int, check func(*C) error) error {
	if len(cases) == 0 || goroutines < 2 {
		harnessError("concurrently: bad case")
	}
	var wg sync.WaitGroup
	errs := make([]error, goroutines)
	start := make(chan struct{})
	for g := 0; g < goroutines; g++ {
		wg.Add(1)
		go func(g int) {
			defer wg.Done()
			<-start
			for r := 0; r < rounds && errs[g] == nil; r++ {
				for i := range cases {
					c := cases[(i+g)%len(cases)] // staggered: goroutines are on different cases at the same time; a private copy per call
					if err := check(&c); err != nil {
						errs[g] = err
						return
					}
				}
			}
		}(g)
	}
	close(start)
	wg.Wait()
	for g, err := range errs {
		if err != nil {
			return failf(sigOf(err)+" concurrent", "with %d goroutines calling at once (goroutine %d): %v", goroutines, g, err)
		}
	}
	return nil
}

type concEncCase struct {
	Cases      []encCase `json:"cases"`
	Goroutines int       `json:"goroutines"`
	Rounds     int       `json:"rounds"`
}

var c01ConcCheck = register("C01", "c01.concurrent", func(c *concEncCase) error {
	return concurrently(c.Cases, c.Goroutines, c.Rounds, c01Check)
})

type concLosslessCase struct {
	Cases      []losslessCase `json:"cases"`
	Goroutines int            `json:"goroutines"`
	Rounds     int            `json:"rounds"`
}

var c05ConcCheck = register("C05", "c05.concurrent", func(c *concLosslessCase) error {
	return concurrently(c.Cases, c.Goroutines, c.Rounds, c05Check)
})

type concRoundCase struct {
	Cases      []roundCase `json:"cases"`
	Goroutines int         `json:"goroutines"`
	Rounds     int         `json:"rounds"`
}

var c02ConcCheck = register("C02", "c02.concurrent", func(c *concRoundCase) error {
	for i := range c.Cases {
		if c.Cases[i].Source == "reader" {
			harnessError("c02.concurrent: the swap hook is not for concurrent use")
		}
	}
	return concurrently(c.Cases, c.Goroutines, c.Rounds, c02Check)
})

type concStringCase struct {
	Values     []int64 `json:"values"`
	Goroutines int     `json:"goroutines"`
	Rounds     int     `json:"rounds"`
}

var c16ConcCheck = register("C16", "c16.concurrent", func(c *concStringCase) error {
	cases := make([]c16Case, len(c.Values))
	for i, v := range c.Values {
		cases[i] = c16Case{N: v}
	}
	return concurrently(cases, c.Goroutines, c.Rounds, c16Check)
})

type concSeedCase struct {
	Cases      []seedCase `json:"cases"`
	Goroutines int        `json:"goroutines"`
	Rounds     int        `json:"rounds"`
}

var c04ConcCheck = register("C04", "c04.concurrent", func(c *concSeedCase) error {
	// expected values once, sequentially from the reference; the goroutines only call and compare
	want := make([][]byte, len(c.Cases))
	for i := range c.Cases {
		want[i] = ref.Seed(string(c.Cases[i].M), string(c.Cases[i].P))
	}
	idx := make([]int, len(c.Cases))
	for i := range idx {
		idx[i] = i
	}
	return concurrently(idx, c.Goroutines, c.Rounds, func(i *int) error {
		sc := &c.Cases[*i]
		got, p := implSeed(string(sc.M), string(sc.P))
		if p != nil {
			return failf("C04 seed panic", "MnemonicToSeed(%s, %s) panicked: %v", short(string(sc.M)), short(string(sc.P)), p)
		}
		if !bytes.Equal(got, want[*i]) {
			return failf("C04 seed value", "MnemonicToSeed(%s, %s) =\n  %x, BIP39 says\n  %x", short(string(sc.M)), short(string(sc.P)), got, want[*i])
		}
		for k := range got { // the caller wipes its seed after use: the slice is the caller's
			got[k] = 0
		}
		return nil
	})
})

const concRule = "concurrent variant: the same single-call oracle applied while 8 goroutines call the package at once with different arguments (thousands of calls per goroutine); non-trivial: every such batch; distinct by batch"

// concEntropies: a spread of entropies of every size, with and without leading zero bytes.
func concEntropies(k int) [][]byte {
	var out [][]byte
	for i, size := range []int{16, 20, 24, 28, 32, 16, 32, 20} {
		e := make([]byte, size)
		for j := range e {
			e[j] = byte((i+1)*(j+3)*(k+5) + j*j)
		}
		if i%3 == 1 {
			e[0], e[1] = 0, 0
		}
		out = append(out, e)
	}
	out = append(out, bytes.Repeat([]byte{0}, 16), bytes.Repeat([]byte{0xff}, 32))
	return out
}

func TestC01_Concurrent(t *testing.T) {
	cov.Rule(c01Rule + " || " + concRule)
	for round := 0; round < pick(2, 12); round++ {
		var cases []encCase
		for i, e := range concEntropies(round) {
			cases = append(cases, encCase{Lang: ref.Lang((i + round) % int(ref.NumLangs)).Name(), Entropy: e, Shape: "concurrent"})
		}
		c := &concEncCase{Cases: cases, Goroutines: 8, Rounds: pick(300, 1500)}
		cov.Eval(len(cases) * c.Goroutines * c.Rounds)
		cov.Class("concurrent-batch")
		cov.NonTrivial("c01.concurrent", []byte(fmt.Sprint(round, cfg.Tier)))
		judge(t, "c01.concurrent", c01ConcCheck, c)
	}
}

func TestC05_Concurrent(t *testing.T) {
	cov.Rule(c05Rule + " || " + concRule)
	for round := 0; round < pick(2, 12); round++ {
		var cases []losslessCase
		for i, e := range concEntropies(round + 100) {
			cases = append(cases, losslessCase{Lang: ref.Lang((i + round) % int(ref.NumLangs)).Name(), Entropy: e, Shape: "concurrent"})
		}
		c := &concLosslessCase{Cases: cases, Goroutines: 8, Rounds: pick(300, 1500)}
		cov.Eval(len(cases) * c.Goroutines * c.Rounds)
		cov.Class("concurrent-batch")
		cov.NonTrivial("c05.concurrent", []byte(fmt.Sprint(round, cfg.Tier)))
		judge(t, "c05.concurrent", c05ConcCheck, c)
	}
}

func TestC02_Concurrent(t *testing.T) {
	cov.Rule(c02Rule + " || " + concRule)
	for round := 0; round < pick(2, 12); round++ {
		var cases []roundCase
		for i, e := range concEntropies(round + 200) {
			l := ref.Lang((i + round) % int(ref.NumLangs))
			cases = append(cases, roundCase{Lang: l.Name(), Source: "entropy", Entropy: e, Shape: "concurrent"})
			cases = append(cases, roundCase{Lang: l.Name(), Source: "indices", Indices: ref.Indices(e), Shape: "concurrent"})
		}
		c := &concRoundCase{Cases: cases, Goroutines: 8, Rounds: pick(150, 800)}
		cov.Eval(len(cases) * c.Goroutines * c.Rounds)
		cov.Class("concurrent-batch")
		cov.NonTrivial("c02.concurrent", []byte(fmt.Sprint(round, cfg.Tier)))
		judge(t, "c02.concurrent", c02ConcCheck, c)
	}
}

func TestC16_Concurrent(t *testing.T) {
	cov.Rule(c16Rule + " || " + concRule)
	for round := 0; round < pick(2, 12); round++ {
		vals := []int64{-1, 10, int64(-2 - round), int64(11 + round), 0, 9, 256 + int64(round), -1 << 33, 1<<33 + 9, 5, int64(1000 * (round + 1))}
		c := &concStringCase{Values: vals, Goroutines: 8, Rounds: pick(3000, 20000)}
		cov.Eval(len(vals) * c.Goroutines * c.Rounds)
		cov.Class("concurrent-batch")
		cov.NonTrivial("c16.concurrent", []byte(fmt.Sprint(round, cfg.Tier)))
		judge(t, "c16.concurrent", c16ConcCheck, c)
	}
}

func TestC04_Concurrent(t *testing.T) {
	cov.Rule(c04Rule + " || " + concRule)
	for round := 0; round < pick(1, 6); round++ {
		l := ref.Lang(round % int(ref.NumLangs))
		valid := strings.Join(ref.Words(l, ref.Indices(concEntropies(round)[0])), l.Sep())
		cases := []seedCase{
			{M: text(valid), P: "TREZOR"},
			{M: text(valid), P: text("\u00e9t\u00e9 \uff21\ufb01" + fmt.Sprint(round))},
			{M: "abandon", P: "\ud55c\uae00 \u304c\u30d0"},
			{M: "abandon", P: "\u2126 \u00c5ngstr\u00f6m"},
			{M: "x", P: "short1"},
			{M: "x", P: "short2"},
			{M: text(gen.Forms["NFC"].String(valid)), P: "\u00e9\uff21"},
			{M: text(gen.FullWidth("abandon ability") + fmt.Sprint(round)), P: ""},
			{M: "\u00c5ngstr\u00f6m \ufb01 " + text(fmt.Sprint(round)), P: "\u0301x"},
			{M: text(strings.Repeat("\u3042\u3099", 70)), P: text(fmt.Sprint(round))},
			{M: text(strings.Repeat("\u00c5ngstr\u00f6m \ufb01 ", 3000)), P: "long"},
			{M: text(strings.Repeat("\uac00\ud55c ", 4000) + fmt.Sprint(round)), P: "long"},
		}
		c := &concSeedCase{Cases: cases, Goroutines: 16, Rounds: pick(25, 120)}
		cov.Eval(len(cases) * c.Goroutines * c.Rounds)
		cov.Class("concurrent-batch")
		cov.NonTrivial("c04.concurrent", []byte(fmt.Sprint(round, cfg.Tier)))
		judge(t, "c04.concurrent", c04ConcCheck, c)
		// all goroutines derive the same pair at once, again and again (each wipes its result)
		same := &concSeedCase{Cases: cases[round%2 : round%2+1], Goroutines: 16, Rounds: pick(60, 300)}
		cov.Eval(same.Goroutines * same.Rounds)
		cov.Class("concurrent-same-pair")
		cov.NonTrivial("c04.concurrent-same", []byte(fmt.Sprint(round, cfg.Tier)))
		judge(t, "c04.concurrent", c04ConcCheck, same)
	}
}

type concTextCase struct {
	Cases      []textCase `json:"cases"`
	Goroutines int        `json:"goroutines"`
	Rounds     int        `json:"rounds"`
}

var c03ConcCheck = register("C03", "c03.concurrent", func(c *concTextCase) error {
	return concurrently(c.Cases, c.Goroutines, c.Rounds, c03TextCheck)
})

type concEquivCheckCase struct {
	Cases      []equivCheckCase `json:"cases"`
	Goroutines int              `json:"goroutines"`
	Rounds     int              `json:"rounds"`
}

var c10ConcCheck = register("C10", "c10.concurrent", func(c *concEquivCheckCase) error {
	return concurrently(c.Cases, c.Goroutines, c.Rounds, c10Check)
})

type concEquivSeedCase struct {
	Cases      []equivSeedCase `json:"cases"`
	Goroutines int             `json:"goroutines"`
	Rounds     int             `json:"rounds"`
}

var c11ConcCheck = register("C11", "c11.concurrent", func(c *concEquivSeedCase) error {
	want := make([][]byte, len(c.Cases))
	for i := range c.Cases {
		if ref.NFKD(string(c.Cases[i].M)) != ref.NFKD(string(c.Cases[i].M2)) || ref.NFKD(string(c.Cases[i].P)) != ref.NFKD(string(c.Cases[i].P2)) {
			harnessError("c11.concurrent: spellings are not NFKD-equal")
		}
		want[i] = ref.Seed(string(c.Cases[i].M), string(c.Cases[i].P))
	}
	idx := make([]int, 2*len(c.Cases))
	for i := range idx {
		idx[i] = i
	}
	return concurrently(idx, c.Goroutines, c.Rounds, func(k *int) error {
		ec := &c.Cases[*k/2]
		m, p := string(ec.M), string(ec.P)
		if *k%2 == 1 {
			m, p = string(ec.M2), string(ec.P2)
		}
		got, perr := implSeed(m, p)
		if perr != nil || !bytes.Equal(got, want[*k/2]) {
			return failf("C11 seed-equiv", "MnemonicToSeed(%+q, %+q) = %x (panic=%v); every spelling with this NFKD form must give %x", clip(m), clip(p), got, perr, want[*k/2])
		}
		return nil
	})
})

// sentencesFor returns, per language index, a valid sentence and its entropy.
func concSentence(l ref.Lang, k int) string { return ref.Encode(concEntropies(k)[int(l)%8], l) }

func TestC03_Concurrent(t *testing.T) {
	cov.Rule(c03Rule + " || " + concRule)
	for round := 0; round < pick(2, 10); round++ {
		var cases []textCase
		for i := 0; i < 6; i++ {
			l := ref.Lang((i*3 + round) % int(ref.NumLangs))
			o := ref.Lang((i*3 + round + 1) % int(ref.NumLangs))
			s, so := concSentence(l, round+i), concSentence(o, round+i+50)
			cases = append(cases,
				textCase{Lang: l.Name(), Text: text(s), Class: "concurrent-valid"},
				textCase{Lang: l.Name(), Text: text(so), Class: "concurrent-other-language"}, // valid under o, not under l
				textCase{Lang: o.Name(), Text: text(s), Class: "concurrent-other-language"},
				textCase{Lang: l.Name(), Text: text(gen.FullWidth(s) + "\u3000"), Class: "concurrent-damaged-nonNFKD"},
			)
		}
		c := &concTextCase{Cases: cases, Goroutines: 12, Rounds: pick(400, 2500)}
		cov.Eval(len(cases) * c.Goroutines * c.Rounds)
		cov.Class("concurrent-batch")
		cov.NonTrivial("c03.concurrent", []byte(fmt.Sprint(round, cfg.Tier)))
		judge(t, "c03.concurrent", c03ConcCheck, c)
	}
}

func TestC10_Concurrent(t *testing.T) {
	cov.Rule(c10Rule + " || " + concRule)
	for round := 0; round < pick(2, 10); round++ {
		var cases []equivCheckCase
		for i := 0; i < 6; i++ {
			l := ref.Lang((i*3 + round) % int(ref.NumLangs))
			s := concSentence(l, round+i)
			bad := s + " " + ref.Golden(l)[i]
			cases = append(cases,
				equivCheckCase{Lang: int64(implLang[l]), A: text(s), B: text(gen.FullWidth(s)), Method: "concurrent"},
				equivCheckCase{Lang: int64(implLang[l]), A: text(bad), B: text(strings.ReplaceAll(gen.Forms["NFC"].String(bad), " ", "\u3000")), Method: "concurrent"},
				equivCheckCase{Lang: int64(implLang[l]), A: text(s), B: text(strings.ReplaceAll(gen.Forms["NFKC"].String(s), " ", "\u00a0")), Method: "concurrent"},
				equivCheckCase{Lang: int64(implLang[ref.Lang((int(l)+1)%int(ref.NumLangs))]), A: text(s), B: text(strings.ReplaceAll(s, " ", "\u2003")), Method: "concurrent"},
			)
		}
		c := &concEquivCheckCase{Cases: cases, Goroutines: 12, Rounds: pick(400, 2500)}
		cov.Eval(len(cases) * c.Goroutines * c.Rounds)
		cov.Class("concurrent-batch")
		cov.NonTrivial("c10.concurrent", []byte(fmt.Sprint(round, cfg.Tier)))
		judge(t, "c10.concurrent", c10ConcCheck, c)
	}
}

func TestC11_Concurrent(t *testing.T) {
	cov.Rule(c11Rule + " || " + concRule)
	for round := 0; round < pick(1, 6); round++ {
		var cases []equivSeedCase
		for i := 0; i < 5; i++ {
			l := ref.Lang((i*2 + round) % int(ref.NumLangs))
			s := concSentence(l, round+i)
			p := fmt.Sprint("p\u00e9", i, round)
			cases = append(cases, equivSeedCase{M: text(s), P: text(p), M2: text(strings.ReplaceAll(gen.Forms["NFC"].String(s), " ", "\u3000")), P2: text(gen.Forms["NFD"].String(p)), Method: "concurrent"})
		}
		cases = append(cases, equivSeedCase{M: text(strings.Repeat("\u00c5\ufb01 ", 2500)), P: "long", M2: text(strings.Repeat("A\u030afi\u2003", 2500)), P2: "long", Method: "concurrent-long"})
		c := &concEquivSeedCase{Cases: cases, Goroutines: 16, Rounds: pick(15, 80)}
		cov.Eval(2 * len(cases) * c.Goroutines * c.Rounds)
		cov.Class("concurrent-batch")
		cov.NonTrivial("c11.concurrent", []byte(fmt.Sprint(round, cfg.Tier)))
		judge(t, "c11.concurrent", c11ConcCheck, c)
	}
}

type concErrCase struct {
	Cases      []errCase `json:"cases"`
	Goroutines int       `json:"goroutines"`
	Rounds     int       `json:"rounds"`
}

var c15ConcCheck = register("C15", "c15.concurrent", func(c *concErrCase) error {
	return concurrently(c.Cases, c.Goroutines, c.Rounds, c15Check)
})

func TestC15_Concurrent(t *testing.T) {
	cov.Rule(c15Rule + " || " + concRule)
	for round := 0; round < pick(2, 10); round++ {
		var cases []errCase
		for i := 0; i < 8; i++ {
			l := ref.Lang((i*3 + round) % int(ref.NumLangs))
			idx := ref.Indices(concEntropies(round + i)[i%8])
			valid := strings.Join(ref.Words(l, idx), " ")
			bad := append([]int(nil), idx...)
			bad[len(bad)-1] ^= 1 // flips a checksum bit: the only defect is the checksum
			words := ref.Words(l, idx)
			words[len(words)/2] = "notaword#" + fmt.Sprint(i)
			cases = append(cases,
				errCase{Lang: l.Name(), Text: text(valid), Want: "valid"},
				errCase{Lang: l.Name(), Text: text(strings.Join(ref.Words(l, bad), " ")), Want: "checksum"},
				errCase{Lang: l.Name(), Text: text(strings.Join(words, " ")), Want: "unknown"},
				errCase{Lang: l.Name(), Text: text(strings.Join(ref.Words(l, idx[:len(idx)-1]), " ")), Want: "count"},
			)
		}
		c := &concErrCase{Cases: cases, Goroutines: 10, Rounds: pick(300, 2000)}
		cov.Eval(len(cases) * c.Goroutines * c.Rounds)
		cov.Class("concurrent-batch")
		cov.NonTrivial("c15.concurrent", []byte(fmt.Sprint(round, cfg.Tier)))
		judge(t, "c15.concurrent", c15ConcCheck, c)
	}
}
