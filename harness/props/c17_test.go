package props

import (
	"bytes"
	"compress/gzip"
	"fmt"
	"go/ast"
	"go/importer"
	"go/parser"
	"go/token"
	"go/types"
	"net"
	"net/http"
	"os"
	"os/exec"
	"path/filepath"
	"strconv"
	"strings"
	"sync"
	"syscall"
	"testing"
	"time"
	"unicode/utf8"

	"pgregory.net/rapid"

	"verif/harness/cov"
	"verif/harness/gen"
	"verif/harness/ref"
)

// C17 — the wordlist generator reproduces its upstream input faithfully.

type toolCase struct {
	// Kind: "files" (Files given), "canonical" (the golden lists), "alphabet"
	// (every rune of categories L and M as a one-rune word and after a base letter).
	Kind  string                  `json:"kind"`
	Files map[string]gen.WordFile `json:"files,omitempty"` // upstream name (e.g. "english") -> file
	// Before: if present, the tool is first run on these files in the same directory, so the run
	// under test overwrites existing (possibly longer) outputs, as every real update does.
	Before map[string]gen.WordFile `json:"before,omitempty"`
	// FaultTarget: the first download of this upstream file is cut half way (full Content-Length
	// announced, connection closed early). The unchanged tool aborts; a tool that carries on must
	// still write exactly the input lines. Outside the property's stated domain for a failing run:
	// only a run that exits 0 is judged.
	FaultTarget string `json:"fault_target,omitempty"`
	// TmpElsewhere: run the tool with TMPDIR on another filesystem than its working directory
	// (when the sandbox has one), as on machines where /tmp is a tmpfs.
	TmpElsewhere bool `json:"tmp_elsewhere,omitempty"`
	// Procs: GOMAXPROCS for the tool process (0 = inherit): the output must not depend on it
	Procs int `json:"procs,omitempty"`
}

// in-process upstream server: /<case id>/<name>.txt
var upstream struct {
	sync.Mutex
	once   sync.Once
	base   string
	files  map[string][]byte
	faults map[string]bool // path -> cut the next response half way
	err    error
}

func upstreamStart() {
	upstream.once.Do(func() {
		upstream.files = map[string][]byte{}
		upstream.faults = map[string]bool{}
		ln, err := net.Listen("tcp", "127.0.0.1:0")
		if err != nil {
			upstream.err = err
			return
		}
		upstream.base = "http://" + ln.Addr().String()
		go http.Serve(ln, http.HandlerFunc(func(w http.ResponseWriter, r *http.Request) {
			upstream.Lock()
			b, ok := upstream.files[r.URL.Path]
			cut := upstream.faults[r.URL.Path]
			delete(upstream.faults, r.URL.Path)
			upstream.Unlock()
			if !ok {
				http.NotFound(w, r)
				return
			}
			if cut && len(b) > 1 {
				if hj, ok := w.(http.Hijacker); ok {
					if conn, buf, err := hj.Hijack(); err == nil {
						fmt.Fprintf(buf, "HTTP/1.1 200 OK\r\nContent-Type: text/plain; charset=utf-8\r\nContent-Length: %d\r\n\r\n", len(b))
						buf.Write(b[:len(b)/2])
						buf.Flush()
						conn.Close()
						return
					}
				}
			}
			w.Header().Set("Content-Type", "text/plain; charset=utf-8")
			if strings.Contains(r.Header.Get("Accept-Encoding"), "gzip") && len(r.URL.Path)%3 == 0 {
				// a host that compresses when asked: Content-Length is the compressed size
				var zb bytes.Buffer
				zw := gzip.NewWriter(&zb)
				zw.Write(b)
				zw.Close()
				w.Header().Set("Content-Encoding", "gzip")
				w.Header().Set("Content-Length", strconv.Itoa(zb.Len()))
				w.Write(zb.Bytes())
				return
			}
			if len(r.URL.Path)%2 == 0 {
				// the way static file hosts answer: Content-Length framing (the final read carries the
				// data together with io.EOF), a Last-Modified date in the past, conditional requests honoured
				http.ServeContent(w, r, "", time.Date(2021, 3, 4, 5, 6, 7, 0, time.UTC), bytes.NewReader(b))
				return
			}
			w.Write(b) // otherwise: no validators, large bodies go out chunked
		}))
	})
}

var toolSeq int

// runTool runs the generator in a scratch directory against the given upstream files.
func runTool(files map[string][]byte) (outDir string, cleanup func(), err error) {
	return runToolIn("", files, "", false)
}

// otherFilesystemDir returns a writable directory on a different device than dir ("" if none).
func otherFilesystemDir(dir string) string {
	var here syscall.Stat_t
	if syscall.Stat(dir, &here) != nil {
		return ""
	}
	for _, cand := range []string{"/dev/shm", "/run/shm", "/run", "/tmp", "/var/tmp"} {
		var st syscall.Stat_t
		if syscall.Stat(cand, &st) != nil || st.Dev == here.Dev {
			continue
		}
		d, err := os.MkdirTemp(cand, "verif-c17-")
		if err == nil {
			return d
		}
	}
	return ""
}

// runToolIn runs the tool in dir (a fresh scratch directory when empty); the first download of
// faultTarget (if any) is cut half way.
func runToolIn(dir string, files map[string][]byte, faultTarget string, tmpElsewhere bool, procs ...int) (outDir string, cleanup func(), err error) {
	tool := os.Getenv("VERIF_TOOL")
	if tool == "" {
		harnessError("c17: VERIF_TOOL not set")
	}
	work := os.Getenv("VERIF_WORK")
	if work == "" {
		work = os.TempDir()
	}
	upstream.Lock()
	toolSeq++
	id := fmt.Sprintf("c%d-%d", os.Getpid(), toolSeq)
	upstream.Unlock()
	if dir == "" {
		dir = filepath.Join(work, "tool-"+id)
	}
	outDir = filepath.Join(dir, "internal", "wordlist")
	if err := os.MkdirAll(outDir, 0o755); err != nil {
		harnessError("c17: %v", err)
	}
	cleanup = func() { os.RemoveAll(dir) }
	upstreamStart()
	var baseURL string
	if upstream.err == nil {
		upstream.Lock()
		for name, b := range files {
			upstream.files["/"+id+"/"+name+".txt"] = b
		}
		if faultTarget != "" {
			upstream.faults["/"+id+"/"+faultTarget+".txt"] = true
		}
		upstream.Unlock()
		defer func() {
			upstream.Lock()
			for name := range files {
				delete(upstream.files, "/"+id+"/"+name+".txt")
			}
			upstream.Unlock()
		}()
		baseURL = upstream.base + "/" + id
	} else {
		// loopback unavailable: serve through the hook's file transport
		src := filepath.Join(dir, "upstream")
		os.MkdirAll(src, 0o755)
		for name, b := range files {
			if err := os.WriteFile(filepath.Join(src, name+".txt"), b, 0o644); err != nil {
				harnessError("c17: %v", err)
			}
		}
		baseURL = "file://" + src
	}
	cmd := exec.Command(tool)
	cmd.Dir = dir
	cmd.Env = append(os.Environ(), "BIP39_VERIF_WORDLIST_URL="+baseURL, "HTTP_PROXY=", "http_proxy=", "NO_PROXY=*")
	if len(procs) > 0 && procs[0] > 0 {
		cmd.Env = append(cmd.Env, fmt.Sprintf("GOMAXPROCS=%d", procs[0]))
	}
	if tmpElsewhere {
		if other := otherFilesystemDir(dir); other != "" {
			defer os.RemoveAll(other)
			cmd.Env = append(cmd.Env, "TMPDIR="+other)
			cov.Class("TMPDIR-on-another-filesystem")
		}
	}
	var out bytes.Buffer
	cmd.Stdout, cmd.Stderr = &out, &out
	if runErr := cmd.Run(); runErr != nil {
		msg := out.String()
		if strings.Contains(msg, "connection refused") || strings.Contains(msg, "dial tcp") || strings.Contains(msg, "no such host") {
			harnessError("c17: the tool could not reach the local upstream server: %s", msg)
		}
		return outDir, cleanup, fmt.Errorf("the tool failed (%v): %s", runErr, tail(msg, 8))
	}
	return outDir, cleanup, nil
}

func tail(s string, n int) string {
	lines := strings.Split(strings.TrimSpace(s), "\n")
	if len(lines) > n {
		lines = lines[len(lines)-n:]
	}
	return strings.Join(lines, "\n")
}

// parseList parses a Go file and returns its []string list variable. wantVar names the variable
// expected (when the file declares several list variables); other declarations are ignored — the
// property only asks for a file that compiles and whose list is the input.
func parseListNamed(fset *token.FileSet, path string, src []byte, wantVar string) (f *ast.File, varName string, list []string, err error) {
	f, err = parser.ParseFile(fset, path, src, parser.AllErrors)
	if err != nil {
		return nil, "", nil, fmt.Errorf("does not parse: %v", err)
	}
	if f.Name.Name != "wordlist" {
		return f, "", nil, fmt.Errorf("declares package %q, want wordlist", f.Name.Name)
	}
	found := map[string][]string{}
	var names []string
	for _, d := range f.Decls {
		gd, ok := d.(*ast.GenDecl)
		if !ok || gd.Tok != token.VAR {
			continue
		}
		for _, sp := range gd.Specs {
			vs := sp.(*ast.ValueSpec)
			for vi, name := range vs.Names {
				if vi >= len(vs.Values) {
					continue
				}
				cl, ok := vs.Values[vi].(*ast.CompositeLit)
				if !ok {
					continue
				}
				at, ok := cl.Type.(*ast.ArrayType)
				if !ok || at.Len != nil || fmt.Sprint(at.Elt) != "string" {
					continue
				}
				lst := []string{}
				for _, e := range cl.Elts {
					bl, ok := e.(*ast.BasicLit)
					if !ok || bl.Kind != token.STRING {
						return f, "", nil, fmt.Errorf("element of %s at %v is not a string literal", name.Name, fset.Position(e.Pos()))
					}
					s, uerr := strconv.Unquote(bl.Value)
					if uerr != nil {
						return f, "", nil, fmt.Errorf("element %s of %s: %v", bl.Value, name.Name, uerr)
					}
					lst = append(lst, s)
				}
				found[name.Name] = lst
				names = append(names, name.Name)
			}
		}
	}
	if lst, ok := found[wantVar]; ok {
		return f, wantVar, lst, nil
	}
	if len(names) == 0 {
		return f, "", nil, fmt.Errorf("declares no []string list variable")
	}
	return f, names[0], found[names[0]], nil
}

func parseList(fset *token.FileSet, path string, src []byte) (*ast.File, string, []string, error) {
	want := ""
	if l, ok := ref.LangByFile(strings.TrimSuffix(filepath.Base(path), ".go")); ok {
		want = l.Name()
	}
	return parseListNamed(fset, path, src, want)
}

func firstListDiff(got, want []string) string {
	for i := 0; i < len(got) && i < len(want); i++ {
		if got[i] != want[i] {
			return fmt.Sprintf("element %d is %+q (% x), the input line is %+q (% x)", i, got[i], got[i], want[i], want[i])
		}
	}
	return fmt.Sprintf("the list has %d elements, the input has %d non-empty lines", len(got), len(want))
}

func equalLists(a, b []string) bool {
	if len(a) != len(b) {
		return false
	}
	for i := range a {
		if a[i] != b[i] {
			return false
		}
	}
	return true
}

func repoDir() string {
	if d := os.Getenv("VERIF_REPO"); d != "" {
		return d
	}
	return "/repo"
}

var c17Check = register("C17", "c17.tool", func(c *toolCase) error {
	files := map[string][]byte{}
	want := map[string][]string{}
	switch c.Kind {
	case "files":
		for l := ref.Lang(0); l < ref.NumLangs; l++ {
			wf, ok := c.Files[l.File()]
			if !ok {
				harnessError("c17: case lacks %s", l.File())
			}
			files[l.File()] = []byte(wf.Content())
			want[l.File()] = wf.Words()
		}
	case "canonical":
		for l := ref.Lang(0); l < ref.NumLangs; l++ {
			files[l.File()] = ref.GoldenFile(l)
			want[l.File()] = ref.Golden(l)
		}
	case "alphabet":
		lm := gen.LetterMarkRunes()
		for l := ref.Lang(0); l < ref.NumLangs; l++ {
			var lines []string
			for i, r := range lm {
				if i%int(ref.NumLangs) != int(l) {
					continue
				}
				lines = append(lines, string(r), "a"+string(r))
			}
			wf := gen.WordFile{Lines: lines, FinalNewline: int(l)%2 == 0}
			files[l.File()] = []byte(wf.Content())
			want[l.File()] = wf.Words()
		}
	default:
		harnessError("c17: unknown kind %q", c.Kind)
	}
	sig := "C17 " + c.Kind
	dir := ""
	if len(c.Before) > 0 {
		before := map[string][]byte{}
		for l := ref.Lang(0); l < ref.NumLangs; l++ {
			before[l.File()] = []byte(c.Before[l.File()].Content())
		}
		bdir, bclean, berr := runTool(before)
		defer bclean()
		if berr != nil {
			return failf(sig+" tool-failed", "first run: %v", berr)
		}
		dir = filepath.Dir(filepath.Dir(bdir))
		sig += " rerun"
	}
	outDir, cleanup, err := runToolIn(dir, files, c.FaultTarget, c.TmpElsewhere, c.Procs)
	defer cleanup()
	if err != nil && c.FaultTarget != "" && upstream.err == nil {
		return nil // the download was cut: aborting is what the unchanged tool does; nothing to judge
	}
	if err != nil {
		return failf(sig+" tool-failed", "%v", err)
	}
	if c.FaultTarget != "" {
		sig += " after-cut-download"
	}
	fset := token.NewFileSet()
	var asts []*ast.File
	for l := ref.Lang(0); l < ref.NumLangs; l++ {
		path := filepath.Join(outDir, l.File()+".go")
		src, rerr := os.ReadFile(path)
		if rerr != nil {
			return failf(sig+" missing-file", "the tool did not write internal/wordlist/%s.go: %v", l.File(), rerr)
		}
		f, varName, list, perr := parseList(fset, l.File()+".go", src)
		if perr != nil {
			return failf(sig+" does-not-compile", "internal/wordlist/%s.go: %v", l.File(), perr)
		}
		asts = append(asts, f)
		if varName != l.Name() {
			return failf(sig+" wrong-variable", "internal/wordlist/%s.go declares %s; lang.go consumes that target as wordlist.%s", l.File(), varName, l.Name())
		}
		if !equalLists(list, want[l.File()]) {
			return failf(sig+" list-differs", "internal/wordlist/%s.go does not contain exactly the non-empty input lines: %s", l.File(), firstListDiff(list, want[l.File()]))
		}
	}
	// "compiles": the ten files type-check together as one package
	conf := types.Config{Importer: importer.ForCompiler(fset, "source", nil)}
	if _, terr := conf.Check("wordlist", fset, asts, nil); terr != nil {
		return failf(sig+" does-not-compile", "the generated package does not type-check: %v", terr)
	}
	if c.Kind == "canonical" {
		// run on the canonical lists it reproduces the committed lists: the committed source and what the API emits
		for l := ref.Lang(0); l < ref.NumLangs; l++ {
			committed, rerr := os.ReadFile(filepath.Join(repoDir(), "internal", "wordlist", l.File()+".go"))
			if rerr != nil {
				harnessError("c17: cannot read the committed list: %v", rerr)
			}
			_, cvar, clist, perr := parseList(token.NewFileSet(), l.File()+".go", committed)
			if perr != nil {
				return failf(sig+" committed-unparsable", "committed internal/wordlist/%s.go: %v", l.File(), perr)
			}
			if cvar != l.Name() || !equalLists(clist, want[l.File()]) {
				return failf(sig+" committed-differs", "the committed internal/wordlist/%s.go is not what the tool generates from the canonical list: %s", l.File(), firstListDiff(clist, want[l.File()]))
			}
			obs, oerr := observeList(l, 16, 0)
			if oerr != nil {
				return oerr
			}
			if !equalLists(obs, want[l.File()]) {
				return failf(sig+" api-differs", "the %s list the API emits is not what the tool generates from the canonical list: %s", l, firstListDiff(obs, want[l.File()]))
			}
		}
		if thorough() {
			if err := compileGenerated(outDir); err != nil {
				return failf(sig+" does-not-compile", "%v", err)
			}
		}
	}
	return nil
})

// compileGenerated builds a scratch copy of the module with the generated lists in place.
func compileGenerated(outDir string) error {
	work := os.Getenv("VERIF_WORK")
	dst := filepath.Join(work, fmt.Sprintf("modcopy-%d", os.Getpid()))
	defer os.RemoveAll(dst)
	if out, err := exec.Command("rsync", "-a", "--exclude", ".git", repoDir()+"/", dst+"/").CombinedOutput(); err != nil {
		harnessError("c17: rsync: %v %s", err, out)
	}
	ents, _ := os.ReadDir(outDir)
	for _, e := range ents {
		b, _ := os.ReadFile(filepath.Join(outDir, e.Name()))
		if err := os.WriteFile(filepath.Join(dst, "internal", "wordlist", e.Name()), b, 0o644); err != nil {
			harnessError("c17: %v", err)
		}
	}
	cmd := exec.Command("go", "build", "./...")
	cmd.Dir = dst
	cmd.Env = append(os.Environ(), "GOFLAGS=-mod=mod", "GOPROXY=off", "GOSUMDB=off", "GOTOOLCHAIN=local")
	if out, err := cmd.CombinedOutput(); err != nil {
		if strings.Contains(string(out), "internal/wordlist") {
			return fmt.Errorf("the module does not build with the generated lists: %s", tail(string(out), 10))
		}
		harnessError("c17: go build of the scratch copy failed for another reason: %s", out)
	}
	return nil
}

const c17Rule = "C17: the update-wordlist binary, built from /repo with the verif hook, is run in a scratch directory against ten rapid-generated upstream files per case (a different list per target; 0..3000 lines of 1..12 letters/marks in Latin+diacritics, Han, kana+voicing marks, Hangul, golden words, arbitrary L/M runes; blank lines at start/middle/end; final newline present or absent), served by a loopback HTTP server, one case in three as a re-run over the (often longer) output of an earlier run in the same directory; one case in four with the first download of one file cut half way (judged only if the tool still exits 0); plus the canonical lists (fresh directory and over an earlier run); plus an alphabet case containing every rune of categories L and M alone and after a base letter. Oracle (round trip): every output parses, the ten type-check as one package, each declares the variable lang.go consumes, and its elements equal the non-empty input lines byte for byte in order; canonical run equals the committed sources and the API's lists. Non-trivial: a file with a blank line, or without final newline, or with non-ASCII words; distinct by content"

func c17Record(c *toolCase) {
	cov.Eval(1)
	cov.Class("kind=" + c.Kind)
	nt := c.Kind != "files"
	for _, wf := range c.Files {
		cov.ClassN("files", 1)
		cov.ClassN("lines", len(wf.Lines))
		blank, nonASCII := false, false
		for _, l := range wf.Lines {
			if l == "" {
				blank = true
			}
			if len(l) != utf8.RuneCountInString(l) {
				nonASCII = true
			}
		}
		if blank {
			cov.Class("file-with-blank-line")
		}
		if !wf.FinalNewline {
			cov.Class("file-without-final-newline")
		}
		if nonASCII {
			cov.Class("file-with-non-ascii")
		}
		if len(wf.Lines) == 0 {
			cov.Class("empty-file")
		}
		if blank || !wf.FinalNewline || nonASCII {
			nt = true
			cov.NonTrivial("c17.file", []byte(wf.Content()), []byte{b2b(wf.FinalNewline)})
		}
	}
	if nt && c.Kind != "files" {
		cov.NonTrivial("c17.case", []byte(c.Kind))
	}
}

func b2b(b bool) byte {
	if b {
		return 1
	}
	return 0
}

func TestC17_Tool(t *testing.T) {
	cov.Rule(c17Rule)
	if cfg.Shard == 0 {
		for _, kind := range []string{"canonical", "alphabet"} {
			c := &toolCase{Kind: kind}
			c17Record(c)
			cov.Sample("c17.tool", c)
			judge(t, "c17.tool", c17Check, c)
		}
		// canonical lists regenerated over the output of an earlier run with longer files
		long := map[string]gen.WordFile{}
		for l := ref.Lang(0); l < ref.NumLangs; l++ {
			lines := append([]string{}, ref.Golden(l)...)
			for i := 0; i < 300; i++ {
				lines = append(lines, ref.Golden(l)[i]+"x")
			}
			long[l.File()] = gen.WordFile{Lines: lines, FinalNewline: true}
		}
		c := &toolCase{Kind: "canonical", Before: long, TmpElsewhere: true, Procs: 1}
		c17Record(c)
		cov.Class("rerun-over-existing-output")
		judge(t, "c17.tool", c17Check, c)
		cov.Exhaustive("every rune of Unicode categories L and M as a one-rune word and after a base letter")
	}
	k := 0
	rapidCheck(t, func(rt *rapid.T) {
		c := &toolCase{Kind: "files", Files: map[string]gen.WordFile{}}
		for l := ref.Lang(0); l < ref.NumLangs; l++ {
			c.Files[l.File()] = gen.WordFileGen().Draw(rt, l.File())
		}
		if rapid.IntRange(0, 2).Draw(rt, "rerun") == 0 {
			// an earlier run left files behind: typically longer ones (the committed lists are 2048 words)
			c.Before = map[string]gen.WordFile{}
			for l := ref.Lang(0); l < ref.NumLangs; l++ {
				wf := gen.WordFileGen().Draw(rt, "before-"+l.File())
				if rapid.Bool().Draw(rt, "longer") {
					wf.Lines = append(wf.Lines, c.Files[l.File()].Lines...)
					wf.Lines = append(wf.Lines, "extra", "words", "follow")
				}
				c.Before[l.File()] = wf
			}
			cov.Class("rerun-over-existing-output")
		}
		if c.Before == nil && rapid.IntRange(0, 3).Draw(rt, "fault") == 0 {
			c.FaultTarget = ref.Lang(rapid.IntRange(0, int(ref.NumLangs)-1).Draw(rt, "fault-target")).File()
			cov.Class("first-download-cut-half-way")
		}
		c.TmpElsewhere = rapid.IntRange(0, 3).Draw(rt, "tmp-elsewhere") == 0
		c.Procs = rapid.SampledFrom([]int{0, 0, 1, 2, 3, 8}).Draw(rt, "procs")
		c17Record(c)
		if k++; k == 3 {
			small := &toolCase{Kind: "files", Files: map[string]gen.WordFile{}}
			for name, wf := range c.Files {
				if len(wf.Lines) <= 6 {
					small.Files[name] = wf
				}
			}
			cov.Sample("c17.tool(files with <= 6 lines of one case)", small)
		}
		judge(rt, "c17.tool", c17Check, c)
	})
}
