package props

import (
	"bytes"
	"fmt"
	"hash/crc32"
	"strings"
	"testing"

	bip39 "github.com/islishude/bip39"
	"pgregory.net/rapid"

	"verif/harness/cov"
	"verif/harness/gen"
	"verif/harness/ref"
)

// C10 — if two strings have the same NFKD form, CheckMnemonic gives the same
// verdict for both under every language; every valid mnemonic is accepted in
// each equivalent spelling.

type equivCheckCase struct {
	Lang   int64  `json:"lang"` // implementation value (may be unsupported)
	A      text   `json:"a"`
	B      text   `json:"b"`
	Method string `json:"method,omitempty"`
	// Prime: a string validated (same language) immediately before the two spellings
	Prime text `json:"prime,omitempty"`
}

// forceCRC32 returns four bytes x such that crc32.ChecksumIEEE(prefix || x) == target.
func forceCRC32(prefix []byte, target uint32) []byte {
	tab := crc32.IEEETable
	var revTop [256]byte
	for j := 0; j < 256; j++ {
		revTop[tab[j]>>24] = byte(j)
	}
	cur := ^crc32.ChecksumIEEE(prefix)
	w := ^target
	var idx [4]byte
	for i := 3; i >= 0; i-- {
		j := revTop[w>>24]
		idx[i] = j
		w = (w ^ tab[j]) << 8
	}
	out := make([]byte, 4)
	c := cur
	for i := 0; i < 4; i++ {
		out[i] = idx[i] ^ byte(c)
		c = tab[idx[i]] ^ (c >> 8)
	}
	return out
}

var c10Check = register("C10", "c10.equiv", func(c *equivCheckCase) error {
	a, b := string(c.A), string(c.B)
	if ref.NFKD(a) != ref.NFKD(b) {
		harnessError("c10: the two spellings are not NFKD-equal: %+q vs %+q", a, b)
	}
	lang := bip39.Language(c.Lang)
	if c.Prime != "" {
		implCheck(string(c.Prime), lang)
	}
	ea, pa := implCheck(a, lang)
	eb, pb := implCheck(b, lang)
	sig := "C10 verdict-equiv " + c.Method
	if pa != nil || pb != nil {
		return failf(sig+" panic", "CheckMnemonic panicked: %v %v", pa, pb)
	}
	if (ea == nil) != (eb == nil) {
		return failf(sig, "CheckMnemonic gives different verdicts under %v for NFKD-equal spellings (%s):\n  %+q -> %v\n  %+q -> %v", lang, c.Method, clip(a), ea, clip(b), eb)
	}
	// anchor: a sentence that is valid in its canonical single-space spelling is accepted in every spelling
	if rl, ok := refLangOf(lang); ok {
		toks := strings.Split(ref.NFKD(a), " ")
		if idx, known := ref.TokensIndices(rl, toks); known && ref.IndicesValid(idx) {
			if ea != nil || eb != nil {
				return failf(sig+" valid-rejected", "a valid %s mnemonic is rejected in an equivalent spelling (%s): %+q -> %v, %+q -> %v", rl, c.Method, clip(a), ea, clip(b), eb)
			}
		}
	}
	return nil
})

const c10Rule = "C10: (a) word sweep \u2014 all 10 x 2048 list words inside valid sentences at every word count, respelled in NFC/NFD/NFKC/NFKD/full-width with U+0020 and U+3000 separators; plus, for every list word, up to three compatibility twins (a rune or run of runes replaced by a single rune that decomposes to it: CJK compatibility ideographs, Kangxi radicals, precomposed kana/Hangul/letters), plus sentences of extreme byte length; (b) rapid: valid and single-defect sentences, and arbitrary Unicode strings, respelled by whole-string forms, per-token forms, every NFKD-space separator, and inverse-NFKD substitution, under supported and unsupported languages. Oracle (metamorphic): equal verdicts; valid sentences accepted in every spelling. Non-trivial: spellings differ bytewise AND (the verdict is accept OR the text is a single-defect sentence); distinct by (language, a, b)"

func c10Record(c *equivCheckCase, interesting bool) {
	cov.Eval(1)
	cov.Class("method=" + c.Method)
	if string(c.A) == string(c.B) {
		cov.Class("identical-spelling")
		return
	}
	if interesting {
		cov.NonTrivial("c10", []byte(fmt.Sprint(c.Lang)), []byte(c.A), []byte(c.B))
	}
}

func TestC10_WordSweep(t *testing.T) {
	cov.Rule(c10Rule)
	item := 0
	for _, l := range allLangs() {
		for _, n := range ref.Counts {
			for base := 0; base < 2048; base += n - 1 {
				item++
				if !mine(item) {
					continue
				}
				prefix := make([]int, n-1)
				for i := range prefix {
					prefix[i] = (base + i) % 2048
				}
				sol := ref.SolveLast(prefix)
				words := ref.Words(l, append(prefix, sol[base%len(sol)]))
				canonical := strings.Join(words, " ")
				done := map[string]bool{canonical: true}
				for _, sep := range []string{" ", "\u3000"} {
					joined := strings.Join(words, sep)
					for _, name := range append(append([]string(nil), gen.FormNames...), "fullwidth") {
						var v string
						if name == "fullwidth" {
							v = gen.FullWidth(joined)
						} else {
							v = gen.Forms[name].String(joined)
						}
						if done[v] {
							continue
						}
						done[v] = true
						method := name
						if sep != " " {
							method += "+U+3000"
						}
						c := &equivCheckCase{Lang: int64(implLang[l]), A: text(canonical), B: text(v), Method: method}
						c10Record(c, true)
						cov.Class("lang=" + l.Name())
						if base == 0 && n == 15 {
							cov.Sample("c10.equiv", c)
						}
						judge(t, "c10.equiv", c10Check, c)
					}
				}
			}
		}
	}
	// compatibility twins: every list word in which some rune (or run of runes) has a single-rune
	// spelling that decomposes to it — CJK compatibility ideographs and Kangxi radicals for the
	// Chinese lists, precomposed kana / Hangul syllables / accented letters elsewhere
	for _, l := range allLangs() {
		if !mine(int(l) + 3) {
			continue
		}
		golden := ref.Golden(l)
		for i, w := range golden {
			rs := []rune(w)
			variants := 0
			for pos := 0; pos < len(rs) && variants < 3; pos++ {
				for span := min(3, len(rs)-pos); span >= 1 && variants < 3; span-- {
					cands := gen.InverseNFKD(string(rs[pos : pos+span]))
					for k := 0; k < len(cands) && k < 2 && variants < 3; k++ {
						twin := string(rs[:pos]) + string(cands[(k+i)%len(cands)]) + string(rs[pos+span:])
						if ref.NFKD(twin) != w {
							continue // interaction with neighbouring marks: not an equivalent spelling
						}
						n := ref.Counts[(i+variants)%5]
						prefix := make([]int, n-1)
						for p := range prefix {
							prefix[p] = (i*13 + p*101) % 2048
						}
						at := (i + variants) % (n - 1)
						prefix[at] = i
						sol := ref.SolveLast(prefix)
						words := ref.Words(l, append(prefix, sol[i%len(sol)]))
						canonical := strings.Join(words, " ")
						words[at] = twin
						c := &equivCheckCase{Lang: int64(implLang[l]), A: text(canonical), B: text(strings.Join(words, " ")), Method: "compat-twin"}
						c10Record(c, true)
						cov.Class("twin lang=" + l.Name())
						variants++
						judge(t, "c10.equiv", c10Check, c)
					}
				}
			}
		}
	}
	// digest twins: right before a valid sentence in a non-NFKD spelling is judged, a garbage string
	// of the same byte length and the same CRC-32 is validated (a verdict memo keyed by a digest of
	// the input instead of the input confuses the two)
	for _, l := range allLangs() {
		if !mine(int(l) + 5) {
			continue
		}
		for k, n := range ref.Counts {
			idx := gen.ExtremeIndices(l, n, k%2 == 0, k)
			canonical := strings.Join(ref.Words(l, idx), " ")
			for _, spelled := range []string{strings.ReplaceAll(canonical, " ", "\u3000"), gen.FullWidth(canonical), gen.Forms["NFC"].String(canonical) + "\u3000"} {
				if len(spelled) < 12 {
					continue
				}
				prefix := append([]byte("\u3000"), bytes.Repeat([]byte{'x'}, len(spelled)-7)...)
				twin := append(prefix, forceCRC32(prefix, crc32.ChecksumIEEE([]byte(spelled)))...)
				if crc32.ChecksumIEEE(twin) != crc32.ChecksumIEEE([]byte(spelled)) || len(twin) != len(spelled) {
					harnessError("c10: CRC forcing failed")
				}
				b := spelled
				a := canonical
				if strings.HasSuffix(spelled, "\u3000") { // a trailing separator: an invalid sentence, spelled two ways
					a = canonical + " "
				}
				c := &equivCheckCase{Lang: int64(implLang[l]), A: text(a), B: text(b), Method: "after-crc32-twin", Prime: text(twin)}
				c10Record(c, true)
				judge(t, "c10.equiv", c10Check, c)
			}
		}
	}
	// sentences of extreme byte length (longest / shortest words), which full-width and NFD spellings stretch further
	for _, l := range allLangs() {
		if !mine(int(l)) {
			continue
		}
		for _, n := range ref.Counts {
			for _, longest := range []bool{true, false} {
				words := ref.Words(l, gen.ExtremeIndices(l, n, longest, n))
				canonical := strings.Join(words, " ")
				for _, v := range []string{gen.FullWidth(canonical), gen.Forms["NFC"].String(strings.Join(words, "\u3000")), strings.Join(words, "\u3000"), gen.Forms["NFKC"].String(canonical)} {
					c := &equivCheckCase{Lang: int64(implLang[l]), A: text(canonical), B: text(v), Method: "extreme-length"}
					c10Record(c, true)
					judge(t, "c10.equiv", c10Check, c)
				}
			}
		}
	}
	cov.Exhaustive("all 10 x 2048 list words at every word count in NFC/NFD/NFKC/NFKD/full-width with both separators")
}

func TestC10_Respell(t *testing.T) {
	cov.Rule(c10Rule)
	rapidCheck(t, c10RespellProp)
}

var c10RespellPropK int

// c10RespellProp is the rapid property behind the test above and the native fuzz target below.
func c10RespellProp(rt *rapid.T) {
	var a string
	var lang int64
	interesting := true
	switch rapid.IntRange(0, 9).Draw(rt, "source") {
	case 0, 1, 2, 3: // valid sentence
		l := gen.Lang().Draw(rt, "lang")
		a = strings.Join(ref.Words(l, gen.ValidIndices().Draw(rt, "idx")), " ")
		lang = int64(implLang[l])
		cov.Class("source=valid")
	case 4, 5, 6, 7: // one defect away
		m := gen.Defect().Draw(rt, "mut")
		a, lang = m.Text, int64(implLang[m.Lang])
		cov.Class("source=defect")
	default:
		a = gen.UString(12).Draw(rt, "ustr")
		lang = int64(implLang[gen.Lang().Draw(rt, "lang")])
		interesting = false
		cov.Class("source=ustring")
	}
	if rapid.IntRange(0, 7).Draw(rt, "other-language") == 0 {
		lang = rapid.OneOf(rapid.Int64Range(-2, 12), rapid.Int64()).Draw(rt, "any-lang")
		interesting = false
	}
	r := gen.Respell(a).Draw(rt, "b")
	cov.ClassN("unsound-variants-discarded", r.Unsound)
	c := &equivCheckCase{Lang: lang, A: text(a), B: text(r.S), Method: r.Method}
	c10Record(c, interesting)
	if c10RespellPropK++; c10RespellPropK%499 == 1 {
		cov.Sample("c10.equiv", c)
	}
	hl, ok := refLangOf(bip39.Language(lang))
	if !ok {
		hl = ref.English
	}
	judgeH(rt, "c10.equiv", c10Check, c, hl)
}

// FuzzC10 drives the same property coverage-guided (thorough tier): the fuzzer's bytes are
// rapid's source of choices.
func FuzzC10(f *testing.F) {
	cov.Rule(c10Rule)
	f.Fuzz(rapid.MakeFuzz(c10RespellProp))
}
