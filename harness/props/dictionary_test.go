package props

import (
	"encoding/binary"
	"encoding/json"
	"go/scanner"
	"go/token"
	"os"
	"path/filepath"
	"strconv"
	"strings"

	"verif/harness/gen"
)

// harvestDictionary scans the non-test, non-wordlist Go sources of the code under test for
// literals and turns them into byte patterns: runs of small integer literals (as in
// []byte{0xa5, 0x5a, ...}), short string literals, and larger integers in both byte orders.
// The generators splice these into entropies and source streams ("dictionary" shape).
func harvestDictionary() [][]byte {
	var out [][]byte
	seen := map[string]bool{}
	add := func(b []byte) {
		if len(b) == 0 || len(b) > 40 || seen[string(b)] {
			return
		}
		seen[string(b)] = true
		out = append(out, append([]byte(nil), b...))
	}
	files, _ := filepath.Glob(filepath.Join(repoDir(), "*.go"))
	for _, f := range files {
		if strings.HasSuffix(f, "_test.go") || strings.HasPrefix(filepath.Base(f), "verif_") {
			continue
		}
		src, err := os.ReadFile(f)
		if err != nil {
			continue
		}
		var sc scanner.Scanner
		fset := token.NewFileSet()
		sc.Init(fset.AddFile(f, fset.Base(), len(src)), src, nil, 0)
		var run []byte
		flush := func() {
			if len(run) >= 2 {
				add(run)
			}
			run = nil
		}
		for {
			_, tok, lit := sc.Scan()
			if tok == token.EOF {
				break
			}
			switch tok {
			case token.INT:
				v, err := strconv.ParseUint(strings.ReplaceAll(lit, "_", ""), 0, 64)
				if err != nil {
					flush()
					continue
				}
				if v <= 255 {
					run = append(run, byte(v))
				} else {
					flush()
					var b [8]byte
					binary.BigEndian.PutUint64(b[:], v)
					i := 0
					for i < 7 && b[i] == 0 {
						i++
					}
					add(b[i:])
					le := append([]byte(nil), b[i:]...)
					for l, r := 0, len(le)-1; l < r; l, r = l+1, r-1 {
						le[l], le[r] = le[r], le[l]
					}
					add(le)
				}
			case token.COMMA:
				// keeps a run of byte literals going
			case token.STRING, token.CHAR:
				flush()
				if s, err := strconv.Unquote(lit); err == nil {
					add([]byte(s))
				}
			default:
				flush()
			}
		}
		flush()
	}
	return out
}

func init() {
	if os.Getenv("VERIF_PLAN") == "" {
		gen.SetDictionary(harvestDictionary())
		if b, err := os.ReadFile(os.Getenv("VERIF_LOOKALIKES")); err == nil {
			var l []gen.Lookalike
			if json.Unmarshal(b, &l) == nil {
				gen.SetLookalikes(l)
			}
		}
	}
}

// envNames returns the string literals of the code under test that look like environment
// variable names (harvested with the dictionary).
func envNames() []string {
	var out []string
	for _, tok := range harvestDictionary() {
		s := string(tok)
		if len(s) < 4 || len(s) > 40 {
			continue
		}
		ok := s[0] >= 'A' && s[0] <= 'Z'
		for i := 0; ok && i < len(s); i++ {
			c := s[i]
			ok = (c >= 'A' && c <= 'Z') || (c >= '0' && c <= '9') || c == '_'
		}
		if ok && strings.Contains(s, "_") {
			out = append(out, s)
		}
	}
	return out
}
