#!/usr/bin/env python3
"""Fills the @@ROUNDTABLE@@ / @@AFTERTABLE@@ placeholders of DESIGN.md section 9 (or refreshes the block
between the markers) from mutants/MATRIX.quick.txt."""
import re, os
root = os.path.join(os.path.dirname(os.path.abspath(__file__)), "..")
rows = {}
for line in open(os.path.join(root, "mutants", "MATRIX.quick.txt")):
    m = re.match(r"MUTANT seeded-(\S+) suite=(\S+) caught:\[(.*?)\]", line)
    if m:
        rows[m.group(1)] = m.group(3).split()
first = {"AB": 26, "CD": 22, "EF": 16, "GH": 29, "IJ": 16, "KL": 21, "MN": 30, "OP": 11, "Q": 11}  # target-check catches when each round came in (session logs)
names = {"AB": "round 1 (A, B)", "CD": "round 2 (C, D)", "EF": "round 3 (E, F)", "GH": "round 4 (G, H)", "IJ": "round 5 (I, J)", "KL": "round 6 (K, L)", "MN": "round 7 (M, N)", "OP": "round 8 (O, P; 32)", "Q": "round 9 (Q; 12 properties, one change each)"}
out = ["| | changes | caught by the target property's check: first run | final | caught by ≥ 1 check (final) | caught by none |", "|---|---|---|---|---|---|"]
tot = [0, 0, 0, 0, 0]
none = []
for k in ("AB", "CD", "EF", "GH", "IJ", "KL", "MN", "OP", "Q"):
    grp = {n: c for n, c in rows.items() if n[3] in k}
    tgt = sum(1 for n, c in grp.items() if n[:3] in c)
    anyc = sum(1 for c in grp.values() if c)
    none += [n for n, c in grp.items() if not c]
    out.append("| %s | %d | %d | %d | %d | %d |" % (names[k], len(grp), first[k], tgt, anyc, len(grp) - anyc))
    for i, v in enumerate((len(grp), first[k], tgt, anyc, len(grp) - anyc)):
        tot[i] += v
out.append("| **all** | **%d** | **%d** | **%d** | **%d** | **%d** |" % tuple(tot))
table = "\n".join(out)
nottarget = sorted(n for n, c in rows.items() if n[:3] not in c and c)
after = ("In the final matrix %d of the %d changes are caught by at least one quick check, %d of them by the check of the\n"
         "property they were written against. The %d others (%s) are caught where the statement they break lives:\n"
         "failures that only occur under concurrency or a cold start by C12 (and the concurrent variants), history-dependent\n"
         "ones by C13, reader-protocol ones by C06, generator-tool ones by C17, 32-bit ones by the GOARCH=386 jobs.%s\n"
         "The hash/CRC/multiplication rows above are the honest edge of this technique: such changes were found only\n"
         "because a *class* of trick (hash-keyed lookups, digest-keyed memos, scaled offsets) was added to the generators\n"
         "after seeing one instance; an unseen trick of the same rarity (a 2⁻³² value condition with no literal in the\n"
         "source and no common structure) would be missed."
         % (tot[3], tot[0], tot[2], len(nottarget), ", ".join(nottarget),
            (" Caught by no check: %s." % ", ".join(none)) if none else ""))
p = os.path.join(root, "DESIGN.md")
s = open(p).read()
if "@@ROUNDTABLE@@" in s:
    s = s.replace("@@ROUNDTABLE@@", "<!-- roundtable -->\n" + table + "\n<!-- /roundtable -->")
    s = s.replace("@@AFTERTABLE@@", "<!-- aftertable -->\n" + after + "\n<!-- /aftertable -->")
else:
    s = re.sub(r"<!-- roundtable -->.*?<!-- /roundtable -->", "<!-- roundtable -->\n" + table + "\n<!-- /roundtable -->", s, flags=re.S)
    s = re.sub(r"<!-- aftertable -->.*?<!-- /aftertable -->", "<!-- aftertable -->\n" + after + "\n<!-- /aftertable -->", s, flags=re.S)
open(p, "w").write(s)
print(table)
print(after)
