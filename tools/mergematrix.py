#!/usr/bin/env python3
"""Merges matrix logs (older first) into mutants/MATRIX.quick.txt: the newest row per change wins.
usage: tools/mergematrix.py <log>=<harness commit> ...   (rows keep a trailing '# harness <commit>' note)"""
import re, sys, os
root = os.path.join(os.path.dirname(os.path.abspath(__file__)), "..")
rows, order = {}, []
for arg in sys.argv[1:]:
    path, commit = arg.split("=")
    for line in open(path, errors="replace"):
        m = re.match(r"(MUTANT (\S+) .*?inconclusive:\[.*?\])", line)
        if not m:
            continue
        name = m.group(2)
        if "build-or-driver-failure" in line:
            continue  # the scratch worktree disappeared under the run: not a result
        if name not in rows:
            order.append(name)
        rows[name] = "%s  # harness %s" % (m.group(1), commit)
def key(n):
    return (0, n) if n.startswith("seeded-") else (1, n)
with open(os.path.join(root, "mutants", "MATRIX.quick.txt"), "w") as f:
    for n in sorted(order, key=key):
        f.write(rows[n] + "\n")
print(len(order), "rows")
