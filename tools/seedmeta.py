#!/usr/bin/env python3
"""Writes /verif/seeded/<id>/meta.json from the sub-agent's agent_meta.json plus what the harness
author ran: tools/seedverify.sh (independent confirmation in a scratch worktree) and
tools/runmutant.sh (which quick checks catch the change). Usage: seedmeta.py <matrix log>..."""
import json, os, re, sys
root = os.path.join(os.path.dirname(os.path.abspath(__file__)), "..", "seeded")
caught = {}
for log in sys.argv[1:]:
    for line in open(log):
        m = re.match(r"MUTANT seeded-(\S+) suite=(\S+) caught:\[(.*?)\] silent:\[(.*?)\] inconclusive:\[(.*?)\]", line)
        if m:
            caught[m.group(1)] = {"suite": m.group(2), "caught": m.group(3).split(), "silent": m.group(4).split(), "inconclusive": m.group(5).split()}
for d in sorted(os.listdir(root)):
    p = os.path.join(root, d)
    if not os.path.isdir(p) or not os.path.exists(os.path.join(p, "agent_meta.json")):
        continue
    a = json.load(open(os.path.join(p, "agent_meta.json")))
    demo = "demo_test.go" if os.path.exists(os.path.join(p, "demo_test.go")) else "demo/"
    meta = {
        "id": d,
        "property": d[:3],
        "origin": "independent sub-agent given only the property text and a scratch worktree of /repo (round %s)" % ("1" if d[3] in "AB" else "2"),
        "summary": a.get("summary"),
        "needs_to_manifest": a.get("needs_to_manifest"),
        "files": {"patch": "patch.diff", "demonstration": demo, "agent_notes": "agent_meta.json"},
        "confirmed_by": "tools/seedverify.sh seeded/%s%s : in a fresh scratch worktree of /repo HEAD the demonstration passes on the unchanged tree; with patch.diff applied the module builds (with and without -tags verif), go vet is clean, the unedited suite passes (go test -vet=off -count=1 ./...) and the demonstration fails" % (d, " -race" if d.startswith("C12") else ""),
        "checks_run": "tools/runmutant.sh seeded/%s/patch.diff quick  (all 17 quick checks against a scratch worktree with the patch applied, VERIF_SEED=1)" % d,
    }
    if d in caught:
        meta["existing_suite"] = caught[d]["suite"]
        meta["caught_by_quick_checks"] = caught[d]["caught"]
        meta["silent_quick_checks"] = caught[d]["silent"]
        if caught[d]["inconclusive"]:
            meta["inconclusive"] = caught[d]["inconclusive"]
        meta["caught_by_target_property_check"] = d[:3] in caught[d]["caught"]
    json.dump(meta, open(os.path.join(p, "meta.json"), "w"), indent=1, ensure_ascii=False)
print("wrote", len(caught), "results into meta.json files")
