#!/usr/bin/env python3
"""Builds the harness author's own sensitivity mutants as patches under /verif/mutants/.
Each is (name, [(file, old, new), ...]); the patch is produced by editing a scratch copy of
/repo's HEAD and diffing. These complement the independent sub-agent changes in /verif/seeded/."""
import os, subprocess, sys, tempfile, shutil
M = [
 ("c01-sep-korean", [("entropy.go", 'if lg == Japanese {', 'if lg == Japanese || lg == Korean {')]),
 ("c01-checksum-cs8", [("entropy.go", 'csInt.Quo(csInt, big.NewInt(1<<(8-csBitLen)))', 'if csBitLen < 8 {\n\t\tcsInt.Quo(csInt, big.NewInt(1<<(7-csBitLen)))\n\t\tcsInt.Quo(csInt, big.NewInt(2))\n\t} else {\n\t\tcsInt.SetBytes(hash.Sum(nil)[1:2])\n\t}')]),
 ("c01-list-korean-japanese", [("lang.go", 'case Korean:\n\t\treturn wordlist.Korean', 'case Korean:\n\t\treturn wordlist.Japanese')]),
 ("c05-mask-1023-last", [("entropy.go", 'wordIdx.And(entInt, last11BitsMask)', 'wordIdx.And(entInt, last11BitsMask)\n\t\tif i == 0 && wordLen == 21 {\n\t\t\twordIdx.And(wordIdx, big.NewInt(1023))\n\t\t}')]),
 ("c02-pad-one-byte", [("mnemonic.go", 'entBytes = append(make([]byte, entLen-len(entBytes)), entBytes...)', 'entBytes = append([]byte{0}, entBytes...)')]),
 ("c03-skip-checksum-21", [("mnemonic.go", 'if sum.Cmp(csBig) != 0 {', 'if sum.Cmp(csBig) != 0 && wordCount != 21 {')]),
 ("c03-lowercase-input", [("mnemonic.go", 'mnemonic = norm.NFKD.String(mnemonic)', 'mnemonic = strings.ToLower(norm.NFKD.String(mnemonic))')]),
 ("c03-isvalid-membership-only", [("mnemonic.go", 'return CheckMnemonic(m, lg) == nil', 'err := CheckMnemonic(m, lg)\n\treturn err == nil || (err == ErrChecksumIncorrect && len(m) > 200)')]),
 ("c04-nfkc-pass", [("bip39.go", 'salt := []byte(norm.NFKD.String("mnemonic" + passphrase))', 'salt := []byte("mnemonic" + norm.NFKC.String(passphrase))')]),
 ("c04-ascii-fastpath", [("bip39.go", 'password := []byte(norm.NFKD.String(mnemonic))', 'password := []byte(mnemonic)\n\tif !norm.NFC.IsNormalString(mnemonic) {\n\t\tpassword = []byte(norm.NFKD.String(mnemonic))\n\t}')]),
 ("c04-truncate-long-password", [("bip39.go", 'return pbkdf2.Key(password, salt, 2048, 64, sha512.New)', 'if len(password) > 4096 {\n\t\tpassword = password[:4096]\n\t}\n\treturn pbkdf2.Key(password, salt, 2048, 64, sha512.New)')]),
 ("c06-read-once", [("bip39.go", 'if _, err := io.ReadFull(cryptoRander, entropy); err != nil {', 'if _, err := io.ReadAtLeast(cryptoRander, entropy, 1); err != nil {')]),
 ("c06-eof-is-ok", [("bip39.go", 'if _, err := io.ReadFull(cryptoRander, entropy); err != nil {', 'if _, err := io.ReadFull(cryptoRander, entropy); err != nil && err != io.ErrUnexpectedEOF {')]),
 ("c06-readatleast-16", [("bip39.go", 'if _, err := io.ReadFull(cryptoRander, entropy); err != nil {', 'if _, err := io.ReadAtLeast(cryptoRander, entropy, 16); err != nil {')]),
 ("c07-mathrand-source", [("bip39.go", 'var cryptoRander = rand.Reader', 'var cryptoRander io.Reader = mrand.New(mrand.NewSource(time.Now().UnixNano()))'), ("bip39.go", '"crypto/rand"', '"crypto/rand"\n\tmrand "math/rand"\n\t"time"'), ("bip39.go", '// cryptoRander is a test stub for NewMnemonic func', '// cryptoRander is a test stub for NewMnemonic func\nvar _ = rand.Reader')]),
 ("c07-xor-counter", [("bip39.go", 'return fromEntropy(entropy, length, lang), nil\n}\n\n// MnemonicToSeed', 'callCounter++\n\tentropy[0] ^= callCounter\n\treturn fromEntropy(entropy, length, lang), nil\n}\n\nvar callCounter byte\n\n// MnemonicToSeed')]),
 ("c08-swap-two-words", [("internal/wordlist/czech.go", '"abdikace",\n\t"abeceda",', '"abeceda",\n\t"abdikace",')]),
 ("c08-nfc-word", [("internal/wordlist/spanish.go", '"a\u0301baco"', '"\u00e1baco"')]),
 ("c09-widen-36", [("bip39.go", 'if entLen < 16 || entLen > 32 || entLen%4 != 0 {', 'if entLen < 16 || entLen > 36 || entLen%4 != 0 {')]),
 ("c09-read-before-validate", [("bip39.go", '\tif length < 12 || length > 24 || length%3 != 0 {\n\t\treturn "", ErrWordLen\n\t}\n', '\tvar probe [1]byte\n\t_, _ = cryptoRander.Read(probe[:])\n\tif length < 12 || length > 24 || length%3 != 0 {\n\t\treturn "", ErrWordLen\n\t}\n')]),
 ("c09-fresh-error", [("bip39.go", 'if length < 12 || length > 24 || length%3 != 0 {\n\t\treturn "", ErrWordLen', 'if length < 12 || length > 24 || length%3 != 0 {\n\t\treturn "", errors.New("invalid mnemonic list length")'), ("bip39.go", '"crypto/rand"', '"crypto/rand"\n\t"errors"')]),
 ("c10-replace-ideographic-only", [("mnemonic.go", 'mnemonic = norm.NFKD.String(mnemonic)', 'mnemonic = strings.ReplaceAll(norm.NFD.String(mnemonic), "\\u3000", " ")')]),
 ("c10-normalise-after-split", [("mnemonic.go", 'mnemonic = norm.NFKD.String(mnemonic)\n\twordList := strings.Split(mnemonic, "\\x20")', 'wordList := strings.Split(mnemonic, "\\x20")\n\tfor i := range wordList {\n\t\twordList[i] = norm.NFKD.String(wordList[i])\n\t}')]),
 ("c11-normalise-mnemonic-only", [("bip39.go", 'salt := []byte(norm.NFKD.String("mnemonic" + passphrase))', 'salt := []byte("mnemonic" + passphrase)')]),
 ("c11-nfd", [("bip39.go", 'password := []byte(norm.NFKD.String(mnemonic))', 'password := []byte(norm.NFD.String(mnemonic))')]),
 ("c12-once-nilcheck-french", [("lang.go", '\t\tfrenchOnce.Do(func() {\n\t\t\tfrenchMapping = make(map[string]int64, 2048)\n\t\t\tfor idx, word := range wordlist.French {\n\t\t\t\tfrenchMapping[word] = int64(idx)\n\t\t\t}\n\t\t})', '\t\tif frenchMapping == nil {\n\t\t\tm := make(map[string]int64, 2048)\n\t\t\tfor idx, word := range wordlist.French {\n\t\t\t\tm[word] = int64(idx)\n\t\t\t}\n\t\t\tfrenchMapping = m\n\t\t}')]),
 ("c12-shared-scratch-bigint", [("mnemonic.go", 'entBig := new(big.Int)\n', 'entBig := scratchBig.SetInt64(0)\n'), ("mnemonic.go", '// IsMnemonicValid validate menemonic', 'var scratchBig = new(big.Int)\n\n// IsMnemonicValid validate menemonic')]),
 ("c13-shared-once", [("lang.go", '\t\tportugueseOnce.Do(func() {', '\t\tczechOnce.Do(func() {')]),
 ("c13-append-to-entropy", [("entropy.go", 'hash := sha256.New()\n\t_, _ = hash.Write(entropy)\n\tchecksum := hash.Sum(nil)[0:1]', 'hash := sha256.New()\n\t_, _ = hash.Write(entropy)\n\tfull := hash.Sum(entropy)\n\tchecksum := full[len(entropy) : len(entropy)+1]')]),
 ("c13-verdict-cache", [("mnemonic.go", 'func CheckMnemonic(mnemonic string, lg Language) error {\n', 'func CheckMnemonic(mnemonic string, lg Language) error {\n\tcacheMu.Lock()\n\tif v, ok := verdictCache[mnemonic]; ok {\n\t\tcacheMu.Unlock()\n\t\treturn v\n\t}\n\tcacheMu.Unlock()\n\terr := checkMnemonic(mnemonic, lg)\n\tcacheMu.Lock()\n\tverdictCache[mnemonic] = err\n\tcacheMu.Unlock()\n\treturn err\n}\n\nvar (\n\tcacheMu      sync.Mutex\n\tverdictCache = map[string]error{}\n)\n\nfunc checkMnemonic(mnemonic string, lg Language) error {\n'), ("mnemonic.go", '"strings"\n', '"strings"\n\t"sync"\n')]),
 ("c14-list-default-nil", [("lang.go", '\tdefault:\n\t\treturn wordlist.English\n', '\tdefault:\n\t\treturn nil\n')]),
 ("c14-widen-count-27", [("mnemonic.go", 'if wordCount%3 != 0 || wordCount < 12 || wordCount > 24 {', 'if wordCount%3 != 0 || wordCount < 12 || wordCount > 27 {')]),
 ("c15-swap-sentinels", [("mnemonic.go", 'return ErrChecksumIncorrect', 'return ErrWordLen')]),
 ("c15-message-without-word", [("mnemonic.go", 'return fmt.Errorf("word `%s` at `%d` not found in mnemonic mapping", word, wordIdx)', 'return fmt.Errorf("word at `%d` not found in mnemonic mapping", wordIdx)')]),
 ("c15-checksum-before-membership", [("mnemonic.go", '\t\tif !ok {\n\t\t\treturn fmt.Errorf(', '\t\tif !ok && wordIdx < wordCount-1 {\n\t\t\treturn fmt.Errorf(')]),
 ("c16-drop-guard", [("language_string.go", 'if i < 0 || i >= Language(len(_Language_index)-1) {', 'if i >= Language(len(_Language_index)-1) {')]),
 ("c16-name-typo", [("language_string.go", 'JapaneseKoreanSpanishCzechPortuguese"', 'JapaneseKoreanSpanishCzechPortugese"'), ("language_string.go", '76, 81, 91}', '76, 81, 90}')]),
 ("c17-drop-if", [("update-wordlist/main.go", '{{ range .WordList }}{{if .}} "{{.}}", {{end}} ', '{{ range .WordList }} "{{.}}", ')]),
 ("c17-trimspace-fields", [("update-wordlist/main.go", 'strings.Split(string(src), "\\n")', 'strings.Fields(strings.ToLower(string(src)))')]),
 ("c17-swap-targets", [("update-wordlist/main.go", '"czech":               "Czech",\n\t"portuguese":          "Portuguese",', '"czech":               "Portuguese",\n\t"portuguese":          "Czech",')]),
 ("c17-quote-escape", [("update-wordlist/main.go", '"html/template"', '"text/template"'), ("update-wordlist/main.go", ' "{{.}}", ', ' {{printf "%+q" .}}, ')]),
]
root = "/verif/mutants"
os.makedirs(root, exist_ok=True)
only = set(sys.argv[1:])
for name, edits in M:
    if only and name not in only: continue
    tmp = tempfile.mkdtemp(prefix="mut-", dir="/tmp")
    try:
        subprocess.check_call(["git", "-C", "/repo", "worktree", "add", "-q", "--detach", tmp + "/wt", "HEAD"])
        wt = tmp + "/wt"
        ok = True
        for f, old, new in edits:
            p = os.path.join(wt, f)
            s = open(p, encoding="utf-8").read()
            if old not in s:
                print("!!", name, ": pattern not found in", f); ok = False; break
            open(p, "w", encoding="utf-8").write(s.replace(old, new, 1))
        if ok:
            subprocess.call(["gofmt", "-w"] + [os.path.join(wt, f) for f, _, _ in edits if f.endswith(".go")])
            d = subprocess.check_output(["git", "-C", wt, "diff"])
            open(os.path.join(root, name + ".diff"), "wb").write(d)
            print("ok", name, len(d))
    finally:
        subprocess.call(["git", "-C", "/repo", "worktree", "remove", "--force", tmp + "/wt"])
        shutil.rmtree(tmp, ignore_errors=True)
