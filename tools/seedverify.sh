#!/bin/bash
# tools/seedverify.sh <srcdir with patch.diff, meta.json, demo_test.go|demo/> [race]
# Confirms a sub-agent's seeded change in a fresh scratch worktree of /repo's HEAD:
#   unchanged tree: demonstration passes;  changed tree: builds (with and without -tags verif),
#   the unedited suite passes, the demonstration fails.  Prints SEED-VERIFIED or the reason it is not.
set -u
SRC=$(realpath "$1"); RACE=${2:-}
export GOFLAGS=-mod=mod GOPROXY=off GOSUMDB=off GOTOOLCHAIN=local
WT=$(mktemp -d /tmp/seedwt.XXXXXX)
cleanup() { git -C /repo worktree remove --force "$WT/r" >/dev/null 2>&1; rm -rf "$WT"; }
trap cleanup EXIT
git -C /repo worktree add -q --detach "$WT/r" HEAD || exit 2
rundemo() {
  if [ -f "$SRC/demo_test.go" ]; then
    cp "$SRC/demo_test.go" "$WT/r/zz_seed_demo_test.go"
    PAT=$(grep -o '^func Test[A-Za-z0-9_]*' "$SRC/demo_test.go" | sed 's/^func //' | paste -sd'|')
    (cd "$WT/r" && go test $RACE -vet=off -count=1 -tags "seed_demo seeddemo" -run "^($PAT)\$" . ) > "$WT/demo.log" 2>&1; rc=$?
    rm -f "$WT/r/zz_seed_demo_test.go"
    return $rc
  elif [ -f "$SRC/demo/go.mod" ]; then
    rm -rf "$WT/demo"; cp -r "$SRC/demo" "$WT/demo"
    (cd "$WT/demo" && go run . "$WT/r") > "$WT/demo.log" 2>&1; return $?
  elif [ -d "$SRC/demo" ] && grep -q SEED_REPO "$SRC/demo/main.go" 2>/dev/null; then
    rm -rf "$WT/demo"; cp -r "$SRC/demo" "$WT/demo"; printf 'module seeddemo\n\ngo 1.23\n' > "$WT/demo/go.mod"
    (cd "$WT/demo" && SEED_REPO="$WT/r" go run . "$WT/r") > "$WT/demo.log" 2>&1; return $?
  elif [ -d "$SRC/demo" ]; then
    rm -rf "$WT/r/zzseeddemo"; cp -r "$SRC/demo" "$WT/r/zzseeddemo"
    (cd "$WT/r" && go run ./zzseeddemo) > "$WT/demo.log" 2>&1; rc=$?
    rm -rf "$WT/r/zzseeddemo"; return $rc
  fi
  echo "no demonstration found" > "$WT/demo.log"; return 99
}
NAME=$(basename $(dirname "$SRC"))/$(basename "$SRC")
rundemo; rc=$?
if [ $rc -ne 0 ]; then echo "SEED-REJECTED $NAME: demonstration does not pass on the unchanged tree (rc=$rc)"; tail -15 "$WT/demo.log"; exit 1; fi
git -C "$WT/r" apply "$SRC/patch.diff" || { echo "SEED-REJECTED $NAME: patch does not apply"; exit 1; }
if git -C "$WT/r" diff --name-only | grep -q '_test.go$'; then echo "SEED-REJECTED $NAME: patch edits test files"; exit 1; fi
(cd "$WT/r" && go build ./... && go build -tags verif ./... && go vet ./... ) > "$WT/build.log" 2>&1 || { echo "SEED-REJECTED $NAME: does not build/vet"; tail -5 "$WT/build.log"; exit 1; }
(cd "$WT/r" && go test -vet=off -count=1 ./...) > "$WT/suite.log" 2>&1 || { echo "SEED-REJECTED $NAME: existing suite fails"; tail -15 "$WT/suite.log"; exit 1; }
rundemo; rc=$?
if [ $rc -eq 0 ]; then echo "SEED-REJECTED $NAME: demonstration passes with the change"; exit 1; fi
echo "SEED-VERIFIED $NAME (demo passes on HEAD, fails with the change rc=$rc; suite passes; files: $(git -C "$WT/r" diff --name-only | tr '\n' ' '))"
