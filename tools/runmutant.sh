#!/bin/bash
# tools/runmutant.sh <patch.diff> [tier] [ID...]
# Applies a patch to a scratch worktree of /repo's HEAD (never to /repo), confirms that it builds and
# that the unedited suite passes there, runs the named checks (default: all 17) against that worktree
# (VERIF_REPO) and removes the worktree. Prints one summary line. Development aid for the harness.
set -u
ROOT=$(cd "$(dirname "$0")/.." && pwd)
PATCH=$(realpath "$1"); shift
TIER=${1:-quick}; [ $# -gt 0 ] && shift
IDS=("$@")
export GOFLAGS=-mod=mod GOPROXY=off GOSUMDB=off GOTOOLCHAIN=local
WT=$(mktemp -d /tmp/mutwt.XXXXXX)
cleanup() { git -C /repo worktree remove --force "$WT/r" >/dev/null 2>&1; rm -rf "$WT"; }
trap cleanup EXIT
git -C /repo worktree add -q --detach "$WT/r" HEAD || exit 2
NAME=$(basename "$PATCH" .diff); [ "$NAME" = patch ] && NAME=seeded-$(basename $(dirname "$PATCH"))
git -C "$WT/r" apply "$PATCH" || { echo "MUTANT $NAME patch-does-not-apply"; exit 2; }
if ! (cd "$WT/r" && go build ./... && go build -tags verif ./...) >/dev/null 2>&1; then echo "MUTANT $NAME does-not-build"; exit 3; fi
if (cd "$WT/r" && go test -vet=off -count=1 ./...) >/dev/null 2>&1; then SUITE=pass; else SUITE=FAIL; fi
cd "$ROOT"
CAUGHT=""; MISSED=""; OTHER=""
export VERIF_REPO="$WT/r" VERIF_ROOT_EVIDENCE_SKIP=1
if [ ${#IDS[@]} -eq 0 ]; then
  # all 17: one build, every property (./check ALL)
  out=$(VERIF_EVIDENCE_DIR="$WT/evidence" VERIF_REPLAY_DIR="$WT/replays" ./check ALL "$TIER" 2>&1)
  while read -r id rc; do
    case $rc in
      0) MISSED="$MISSED $id";;
      1) CAUGHT="$CAUGHT $id";;
      *) OTHER="$OTHER $id(rc=$rc)";;
    esac
  done < <(echo "$out" | sed -n 's/^RESULT property=\(C[0-9]*\) rc=\([0-9]*\)$/\1 \2/p')
  if [ -z "$CAUGHT$MISSED$OTHER" ]; then OTHER=" ALL(build-or-driver-failure)"; echo "$out" | tail -5 >&2; fi
else
for id in "${IDS[@]}"; do
  out=$(VERIF_EVIDENCE_DIR="$WT/evidence" VERIF_REPLAY_DIR="$WT/replays" ./check "$id" "$TIER" 2>&1); rc=$?
  case $rc in
    0) MISSED="$MISSED $id";;
    1) CAUGHT="$CAUGHT $id";;
    *) OTHER="$OTHER $id(rc=$rc)"; echo "$out" | tail -5 >&2;;
  esac
done
fi
echo "MUTANT $NAME suite=$SUITE caught:[${CAUGHT# }] silent:[${MISSED# }] inconclusive:[${OTHER# }]"
