#!/usr/bin/env python3
"""Regenerates /verif/MANIFEST.json from the table below (keeps it valid at all times)."""
import json, os, sys
ROOT = os.path.dirname(os.path.dirname(os.path.abspath(__file__)))

BASE_NOTE = ("Trusted base: the reference model in harness/ref (bit-slice BIP39 codec, hand-written HMAC/PBKDF2, "
             "golden lists with pinned SHA-256), crypto/sha256, crypto/sha512, x/text norm tables (Unicode 15.0.0), "
             "rapid v1.3.0 and the Go toolchain. Generated-input search never establishes absence.")

# id -> (built, category, technique, level text, level note, design ref)
BUILT = set(["C%02d" % i for i in range(1, 18)])

# id -> (category, technique, level text, extra note, design ref)
P = {
 "C01": ("exploration",
         "differential testing against a bit-slice reference encoder: complete (language,size,position,index) pairwise table + rapid structured entropies (incl. text-like bytes and literals harvested from the source) + concurrent and after-validation variants; the same oracle after rapid-generated histories of earlier calls in the same goroutine and in freshly started processes for every language x first-use pattern",
         "NewMnemonicByEntropy is compared byte-for-byte with an independent encoder over golden lists on a table that executes every (language, size, word position, 11-bit index) tuple and every first-SHA-256-byte value at every checksum width, on the extreme-byte-length sentences of every list, and on structured random entropies (leading zero bytes, bit runs, text-like bytes, source literals); each case also re-checks the returned sentence after a later call and a refilled, reused buffer; the table is repeated after validations and under 8 concurrent callers. Pairwise-complete, not exhaustive over 2^128..2^256 entropies.",
         "", "6/C01"),
 "C02": ("exploration",
         "round-trip property (generate -> validate) over the pairwise table, leading-zero-byte sweeps, extreme-length sentences, scripted and default randomness sources, reference-assembled valid sentences, and a concurrent variant; one rapid case in four runs directly after a generated history of earlier calls (rejected typos, failing sources, other languages); adjacent windows of one buffer encoded by 8 goroutines at once; word sweeps in hundreds of freshly started processes (per-process randomness such as hash seeds)",
         "Every generated mnemonic (by entropy, by NewMnemonic under a scripted source and under the default source) and every sentence assembled from golden words with a reference-solved checksum must be accepted by CheckMnemonic and IsMnemonicValid; leading zero bytes k=0..size are enumerated for every size and language, the longest/shortest-word sentences for every language and count, and 8 goroutines repeat the round trip concurrently in mixed languages.",
         "", "6/C02"),
 "C03": ("exploration",
         "differential accept-set scans (all 2048 last words / all substitutions) against the reference validator + one-directional soundness oracle on defect-mutated, primed and arbitrary strings + concurrent cross-language variant; giant separator-free tokens at buffer limits (4 KiB, 64 KiB); one rapid case in four after a generated history of earlier calls; native go fuzzing of a structured sentence-mutation target in the thorough tier",
         "For generated prefixes all 2048 final words are validated and the accepted set must be exactly the reference's 2^(11-n/3) solutions; all substitutions at generated positions; single-defect mutants (20 classes incl. empty tokens, stripped/added marks, invisible affixes, counts wrapping modulo 2^8/2^16, foreign words, separator damage) and arbitrary Unicode/byte strings, optionally right after the same text was validated under its home language, must never be accepted unless the most liberal reading (strings.Fields of the NFKD form) is a valid mnemonic; IsMnemonicValid must agree with CheckMnemonic everywhere; 12 goroutines validate valid, foreign and damaged sentences at once.",
         "A stricter-than-necessary validator (e.g. rejecting doubled spaces) is deliberately not flagged.", "6/C03"),
 "C04": ("exploration",
         "differential testing against a hand-written PBKDF2-HMAC-SHA512 over NFKD inputs, rapid Unicode string generators with boundary classes, aliasing probe on returned slices, boundary-shift primer, concurrent variant",
         "MnemonicToSeed is compared with an independent PBKDF2/HMAC implementation on generated (mnemonic, passphrase) pairs: empty, non-mnemonics, NFKD length exactly at / around the 64/128/256-byte HMAC boundaries, non-NFKD text, low-rune strings just under typical fast-path thresholds, highest-expansion compatibility runes, marks on both sides of the salt boundary, the (a+b,c) vs (a,b+c) concatenation twins, up to 1 MiB; each result must be 64 bytes and must not share memory with an earlier result; 16 goroutines derive different seeds at once.",
         "NFKD itself comes from golang.org/x/text (same module version as /repo); hand-stated Unicode facts are asserted in the self-test to keep this from being purely circular.", "6/C04"),
 "C05": ("exploration",
         "round-trip through an independent decoder + metamorphic single-bit-flip relation + concurrent variant; the same after generated histories and in freshly started processes for every language x first-use pattern; the generating entry point under scripted fragmenting / stalling sources (sentence must decode to the delivered bytes)",
         "Sentences returned for the pairwise table, the extreme-length sentences and random structured entropies are decoded by the reference decoder and must give back the entropy; for the random and extreme cases all ENT single-bit flips must change the sentence and decode to the flipped entropy; the decode round trip also runs under 8 concurrent callers.",
         "", "6/C05"),
 "C06": ("fault_enumeration",
         "complete enumeration of failure point x failure kind x fragmentation x language under a scripted randomness source (verif hook) + rapid-generated reader scripts (half after a priming validation) + 13 operating-system error kinds and stalling sources (two-sided oracle) + a concurrent mixed-outcome variant, against the reference encoder; native fuzzing of the script generator in the thorough tier",
         "Every failure point k in 0..4n/3-1 for each of the five counts, five failure kinds (EOF, ErrUnexpectedEOF, plain error, EAGAIN, timeout), error alone or with bytes, three fragmentations and ten languages is injected (36 000 scripts), plus every fragmentation class of a successful delivery (incl. the error arriving with the completing bytes: success required) and tens of thousands of random scripts; the bytes delivered up to the first failure decide the expected outcome exactly; the source keeps delivering after a failure so retry/fallback/latching behaviour is visible; 8 goroutines mix failing and succeeding calls on one stateless source.",
         "", "6/C06"),
 "C07": ("exploration",
         "fresh-process probing of source identity through the verif hook, byte-exact tee oracle, fixed-data / repetition / bias screens over genuinely unswapped default outputs, fault injection into the default source itself (20 error kinds x failure points: no sentence may be made of bytes the source did not deliver), a slow default source, the exported crypto/rand.Reader variable replaced after start-up, replayed bytes (same bytes => same sentence) and a shared-bytes screen over consecutive outputs",
         "In freshly started processes, after generated histories of non-swapping calls (incl. rejected sizes), the value the swap hook returns must be crypto/rand.Reader itself; NewMnemonic called through a recording tee around that source must return exactly the reference encoding of the bytes drawn; thousands of unswapped default outputs of mixed sizes drawn back to back must show no run of fixed bytes, no repeat and no biased bit.",
         "Randomness quality cannot be established by sampling; the claim rests on identity plus byte-exactness.", "6/C07"),
 "C08": ("exploration",
         "complete enumeration of the finite domain 10 x 2048 against embedded golden lists (API output and source text), accept-set scans per word (every second word directly after a rejected typo), shared-word cross-language sentences, cold concurrent first use in fresh processes",
         "The word the API emits for each of the 10 x 2048 indices, and the list declared in internal/wordlist/*.go, are compared with golden lists (digest-pinned) and checked for the stated structural facts; for each word, sentences containing it are scanned over candidate last words and the accepted set must equal the reference solution set for that index; sentences made only of words two lists share are validated alternately under both languages. Exhaustive over the finite domain; the canonical lists themselves are trusted data.",
         "The golden Portuguese list has no external digest corroboration (checked structurally only).", "6/C08"),
 "C09": ("exploration",
         "exhaustive range enumeration of lengths and counts + rapid Int generation (also as a native fuzz target in the thorough tier), with a counting randomness source installed through the verif hook; content-bearing sizes (text-like bytes of every length 0..130, extreme-length entropies of every language); calls after a source that panicked inside Read and under a slow but working source, with a watchdog",
         "Every entropy length 0..4096 (thorough 0..65536, plus MiB sizes) and every word count in [-4096,4096] (thorough +-10^6), int extremes and values congruent to valid counts modulo 2^32 are tried; success iff one of the five sizes, otherwise the sentinel error, the empty string and zero reads of the source; counts congruent to a valid one modulo 2^k (k = 8..63) are included and the range job also runs in a 32-bit (GOARCH=386) build where int is 32 bits wide.",
         "With an unsupported language only the shape of the result is asserted.", "6/C09"),
 "C10": ("exploration",
         "metamorphic relation (NFKD-equal spellings => equal verdict) over a complete list-word sweep with compatibility twins, rapid respellings with a self-checking inverse-NFKD substitution generator, a concurrent variant; native fuzzing in the thorough tier",
         "All 10 x 2048 list words are placed in valid sentences at every word count and respelled in NFC/NFD/NFKC/NFKD/full-width with both separators, and with up to three compatibility twins per word (CJK compatibility ideographs, Kangxi radicals, precomposed kana/Hangul/letters); generated valid, single-defect and arbitrary strings are respelled by forms, per-token forms, every NFKD-space, and inverse-NFKD substitution (optionally restricted to low runes); CheckMnemonic must give the same verdict, and accept valid sentences in every spelling, under supported and unsupported languages, also with 12 goroutines at once.",
         "The generator re-computes NFKD equality of every pair and discards (and counts) unsound variants.", "6/C10"),
 "C11": ("exploration",
         "metamorphic relation (NFKD-equal spellings => equal seed), anchored to the reference PBKDF2 value, over a complete list-word sweep, rapid respellings and a concurrent variant; returned seeds are wiped by the caller between derivations (aliasing probe), one rapid case in four after a generated history of earlier calls",
         "Every list word of every language is exercised inside a 24-word sentence in NFC/NFD/NFKC/NFKD/full-width with U+0020 and U+3000 separators; generated (mnemonic, passphrase) pairs (C04's generator) are respelled by the C10 generator; seeds must be equal and equal to the reference value, also with 16 goroutines at once.",
         "", "6/C11"),
 "C12": ("exploration",
         "rapid-generated goroutine plans executed one per fresh -race process; oracle = Go race detector report + reference model + repetition stability + in-process solo replay",
         "Each plan (optional sequential prelude with failing calls, then 2..16 goroutines released together in a process that has not used the package, arranged so that several make the first use of the same language, followed by warm phases; GOMAXPROCS, yields and per-call repetition vary) plus fixed cold-start plans per language and hammer plans (8 goroutines x thousands of cheap calls with different, partly non-NFKD, arguments). Any race-detector report, panic, unstable repetition, invalid default-source output, or result differing from the reference model or from the same call run alone is a violation.",
         "Schedules are sampled, not enumerated; the race detector flags unsynchronised access pairs that are executed, largely independent of the interleaving taken.", "6/C12"),
 "C13": ("exploration",
         "model-based / metamorphic testing of call histories, each executed in a fresh process and again permuted in a second fresh process, plus an in-process machine with process-lifetime consistency; idle-time histories (no call for 65 s / 200 s) in the thorough tier",
         "All 100 ordered pairs of first-used languages x 4 first-call patterns, generated histories of up to 40+ calls (unsupported languages, failing calls, re-used arguments, scripted sources, spare-capacity entropy slices, wiped seeds) run from a cold start, and thousands of long warm in-process histories; each observation must equal the history-free reference, the observation of the same call in a differently ordered process, and repeated calls must agree; caller buffers, returned strings, seeds and error values are re-checked at the end.",
         "", "6/C13"),
 "C14": ("exploration",
         "robustness testing: grid over Language values, sizes, block-edge code points and extreme-length entropies, rapid-generated hostile arguments with a hang watchdog, randomness sources that fail for good (18 error kinds), fresh child processes (one in three under a hostile locale / environment) whose 4..12 goroutines call all entry points at once with capitalised / near-miss / foreign words (fatal errors and deadlocks that recover() cannot stop), coverage-guided native fuzzing in the thorough tier",
         "Every entry point is called with every Language in [-300,300] and at integer boundaries, entropy lengths 0..1024 (thorough 0..4096), word counts at boundaries, sentences of 1..61 real words, invalid UTF-8, NULs, code points at the edges of the scripts' Unicode blocks, extreme-length entropies and 0.5-4 MiB inputs; rapid draws and (thorough) two native fuzz targets extend this. The grid also runs in a 32-bit (GOARCH=386) build. A recovered panic or a call exceeding 120 s is a violation.",
         "\"Never hangs\" is decided up to the 120 s bound.", "6/C14"),
 "C15": ("exploration",
         "generated single-defect sentences re-classified by the reference model, errors.Is / message-content oracle, primer and after-call probes, a complete sweep of all 10 x 2048 list words inside valid and checksum-only-defect sentences, generic defect programs (numbered sheets, missing separators, detached marks, giant tokens), concurrent variant; native fuzzing in the thorough tier",
         "Sentences with exactly one defect class (count only incl. counts wrapping modulo 2^8/2^16, checksum only, unknown token with acceptable count) over all languages and sizes, a quarter of them written with compatibility spaces, some judged right after the same text was judged under another language (incl. shared-word sentences); the returned error must match ErrWordLen / ErrChecksumIncorrect / be a non-sentinel error naming an unknown token and must not change when later calls fail; valid sentences must give nil; 10 goroutines repeat this concurrently.",
         "For combined defects only \"not nil\" is asserted (the property does not order them).", "6/C15"),
 "C16": ("exploration",
         "exhaustive range enumeration + rapid Int64 generation against a name table keyed by the declared constants, retention / revisit probes, concurrent variant, cold concurrent first use in fresh processes",
         "Every Language value in [-100000,100000] (thorough: [-2^24,2^24]) plus all integer-width boundaries and random int64 draws is printed and compared with the declared identifier / \"Language(N)\"; the returned string is re-read after other values were printed, values printed thousands of distinct values ago are revisited, and 8 goroutines print different values at once; the range job also runs in a 32-bit (GOARCH=386) build; panics are caught.",
         "", "6/C16"),
 "C17": ("exploration",
         "round-trip testing of the real tool binary (built with the verif hook) on rapid-generated upstream files served over loopback HTTP, with re-runs over existing output, a cut download, gzip-encoded and Content-Length / chunked responses, conditional requests, files sized around 64 KiB and 1 MiB, first words that begin like binary signatures, and TMPDIR on another filesystem; output parsed with go/parser and type-checked with go/types",
         "The generator is run on ten different generated word files per case (blank lines, missing final newline, Latin+diacritics, Han, kana, Hangul, arbitrary letters/marks incl. supplementary planes, up to 3000 lines), on the canonical lists, and on an alphabet file with every Unicode letter and mark; every output must parse and type-check, declare the variable lang.go consumes, and contain exactly the non-empty input lines; the canonical run must equal the committed sources and the lists the API emits (thorough: the module is rebuilt with the generated files).",
         "Formatting is not compared; CRLF input and characters html/template escapes are outside the stated domain; a run in which the injected download fault makes the tool abort is not judged.", "6/C17"),
}
ALL = ["C%02d" % i for i in range(1, 18)]

checks = []
na = []
for pid in ALL:
    if pid in P and pid in BUILT:
        cat, tech, text, extra, ref = P[pid]
        note = BASE_NOTE + (" " + extra if extra else "")
        checks.append({
            "property_id": pid,
            "quick_cmd": "./check %s quick" % pid,
            "thorough_cmd": "./check %s thorough" % pid,
            "evidence_file": "/verif/evidence/%s.json" % pid,
            "replay_cmd_template": "./check %s --replay {path}" % pid,
            "engine": "verifcheck",
            "level_claimed": {"category": cat, "text": text, "design_ref": "DESIGN.md §" + ref},
            "level_note": note,
            "technique": tech,
        })
    else:
        na.append({"property_id": pid, "reason": "check not built yet (work in progress; the design in DESIGN.md §6 covers it with property-based testing)"})

m = {
 "version": 1,
 "setup_cmd": "./setup.sh",
 "hooks": {
  "guard": "verif",
  "enable": "go build tag: -tags verif (the harness module replaces github.com/islishude/bip39 by /repo and builds it with -tags verif; the *-untagged jobs build without the tag and add the same hook file, its constraint inverted, through a go build -overlay, writing nothing to /repo)",
  "baseline_off_cmd": "cd /repo && go test -vet=off -count=1 -json ./...",
  "source_commits": ["b6dfdc9", "b8c1e4b"],
  "add_only": True,
 },
 "engines": [{
  "name": "verifcheck", "path": "/verif/harness",
  "serves_properties": [c["property_id"] for c in checks],
  "kind_free_text": "Go property-based tests (pgregory.net/rapid v1.3.0 generators, exhaustive enumeration of finite sub-domains, native go fuzzing in thorough tiers) against an independent reference model; driver shards them over 16 cores, merges coverage statistics into evidence and turns shrunk failures into replay files",
 }],
 "checks": checks,
 "notes": "Each check rebuilds the harness against /repo's working tree (replace directive). Exit 0 held / 1 VIOLATION / 2 not a verdict (build failure, harness error, timeout). known_findings.txt lists fixed and recorded findings. VERIF_SEED selects the rapid seeds.",
 "not_applicable": na,
}
if not na:
    m["not_applicable"] = []
json.dump(m, open(os.path.join(ROOT, "MANIFEST.json"), "w"), indent=1)
print("MANIFEST.json: %d checks, %d not_applicable" % (len(checks), len(na)))
