#!/usr/bin/env python3
"""Regenerates /verif/MANIFEST.json from the table below (keeps it valid at all times)."""
import json, os, sys
ROOT = os.path.dirname(os.path.dirname(os.path.abspath(__file__)))

BASE_NOTE = ("Trusted base: the reference model in harness/ref (bit-slice BIP39 codec, hand-written HMAC/PBKDF2, "
             "golden lists with pinned SHA-256), crypto/sha256, crypto/sha512, x/text norm tables (Unicode 15.0.0), "
             "rapid v1.3.0 and the Go toolchain. Generated-input search never establishes absence.")

# id -> (built, category, technique, level text, level note, design ref)
P = {
 "C16": (True, "exploration",
         "exhaustive range enumeration + rapid Int64 generation against a name table keyed by the declared constants",
         "Every Language value in [-100000,100000] (thorough: [-2^24,2^24]) plus all integer-width boundaries and random int64 draws is printed and compared with the declared identifier / \"Language(N)\"; panics are caught. The finite part people can reach by mistake is exhaustive; the rest of int64 is sampled.",
         BASE_NOTE, "6/C16"),
}
ALL = ["C%02d" % i for i in range(1, 18)]

checks = []
na = []
for pid in ALL:
    if pid in P and P[pid][0]:
        _, cat, tech, text, note, ref = P[pid]
        checks.append({
            "property_id": pid,
            "quick_cmd": "./check %s quick" % pid,
            "thorough_cmd": "./check %s thorough" % pid,
            "evidence_file": "/verif/evidence/%s.json" % pid,
            "replay_cmd_template": "./check %s --replay {path}" % pid,
            "engine": "verifcheck",
            "level_claimed": {"category": cat, "text": text, "design_ref": "DESIGN.md §" + ref},
            "level_note": note,
            "technique": tech,
        })
    else:
        na.append({"property_id": pid, "reason": "check not built yet (work in progress; the design in DESIGN.md §6 covers it with property-based testing)"})

m = {
 "version": 1,
 "setup_cmd": "./setup.sh",
 "hooks": {
  "guard": "verif",
  "enable": "go build tag: -tags verif (the harness module replaces github.com/islishude/bip39 by /repo and builds it with -tags verif)",
  "baseline_off_cmd": "cd /repo && go test -vet=off -count=1 -json ./...",
  "source_commits": ["b6dfdc9", "b8c1e4b"],
  "add_only": True,
 },
 "engines": [{
  "name": "verifcheck", "path": "/verif/harness",
  "serves_properties": [c["property_id"] for c in checks],
  "kind_free_text": "Go property-based tests (pgregory.net/rapid v1.3.0 generators, exhaustive enumeration of finite sub-domains, native go fuzzing in thorough tiers) against an independent reference model; driver shards them over 16 cores, merges coverage statistics into evidence and turns shrunk failures into replay files",
 }],
 "checks": checks,
 "notes": "Each check rebuilds the harness against /repo's working tree (replace directive). Exit 0 held / 1 VIOLATION / 2 not a verdict (build failure, harness error, timeout). known_findings.txt lists fixed and recorded findings. VERIF_SEED selects the rapid seeds.",
 "not_applicable": na,
}
if not na:
    m["not_applicable"] = []
json.dump(m, open(os.path.join(ROOT, "MANIFEST.json"), "w"), indent=1)
print("MANIFEST.json: %d checks, %d not_applicable" % (len(checks), len(na)))
