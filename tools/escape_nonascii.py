#!/usr/bin/env python3
"""Rewrites non-ASCII characters in Go string/rune literals as \\u escapes (comments untouched),
so that look-alike characters (U+3000 vs U+0020, NFC vs NFD) are unambiguous in the harness source."""
import sys, re
def esc(ch):
    o = ord(ch)
    return '\\u%04x' % o if o <= 0xffff else '\\U%08x' % o
for p in sys.argv[1:]:
    src = open(p, encoding='utf-8').read()
    out = []
    for line in src.split('\n'):
        # split off a trailing // comment that is not inside a string (approximation: find // outside quotes)
        inq = None; i = 0; cut = len(line)
        while i < len(line):
            c = line[i]
            if inq:
                if c == '\\' and inq != '`': i += 2; continue
                if c == inq: inq = None
            else:
                if c in '"\'`': inq = c
                elif c == '/' and line[i:i+2] == '//': cut = i; break
            i += 1
        code, comment = line[:cut], line[cut:]
        code = ''.join(esc(ch) if ord(ch) > 127 else ch for ch in code)
        out.append(code + comment)
    new = '\n'.join(out)
    if new != src:
        open(p, 'w', encoding='utf-8').write(new)
        print('escaped', p)
